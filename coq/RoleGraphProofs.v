(* RoleGraphProofs.v — the structural model of the default role managers (RoleGraph.v):
   (a) a well-formedness invariant of the pointer structure, preserved by every operation;
   (b) refinement to the abstract link-set model of Roles.v for managers without matching
       function (RoleManagerImpl and DomainManager);
   (c) with a matching function: HasLink = bounded reachability in the stored links closed
       under pattern matching over the registered names; refuted statements with witnesses. *)
From Coq Require Import List String Ascii Bool Arith Lia.
Import ListNotations.
From Casbin Require Import Base BaseProofs Roles RolesProofs RoleGraph.

(* ================= maps ================= *)
Section Maps.
Context {A : Type}.
Implicit Types m : list (string * A).

Lemma lookup_None_notin k m : lookup k m = None <-> ~ In k (map fst m).
Proof.
  induction m as [|[k0 v0] t IH]; cbn [lookup map fst In]; [tauto|].
  destruct (String.eqb k k0) eqn:E.
  - apply String.eqb_eq in E. subst. split; [discriminate|intros H; exfalso; apply H; auto].
  - apply String.eqb_neq in E. rewrite IH. split; [intros H [H1|H1]; [congruence|tauto]|tauto].
Qed.

Lemma lookup_In k v m : lookup k m = Some v -> In (k, v) m.
Proof.
  induction m as [|[k0 v0] t IH]; cbn [lookup In]; [discriminate|].
  destruct (String.eqb k k0) eqn:E.
  - apply String.eqb_eq in E. subst. intros H. inversion H. auto.
  - auto.
Qed.

Lemma In_keys k v m : In (k, v) m -> In k (map fst m).
Proof. intros H. apply in_map_iff. exists (k, v). auto. Qed.

Lemma In_lookup k v m : NoDup (map fst m) -> In (k, v) m -> lookup k m = Some v.
Proof.
  induction m as [|[k0 v0] t IH]; cbn [lookup In map fst]; [tauto|].
  intros ND [H|H].
  - inversion H. subst. rewrite String.eqb_refl. reflexivity.
  - inversion ND as [|x l Hx ND']. subst. destruct (String.eqb k k0) eqn:E.
    + apply String.eqb_eq in E. subst. exfalso. apply Hx. eapply In_keys; eauto.
    + auto.
Qed.

Lemma In_fun k v v' m : NoDup (map fst m) -> In (k, v) m -> In (k, v') m -> v = v'.
Proof. intros ND H1 H2. apply (In_lookup _ _ _ ND) in H1, H2. congruence. Qed.

Lemma mput_absent k v m : lookup k m = None -> mput k v m = m ++ [(k, v)].
Proof.
  induction m as [|[k0 v0] t IH]; cbn [lookup mput app]; [reflexivity|].
  destruct (String.eqb k k0); [discriminate|]. intros H. rewrite IH by exact H. reflexivity.
Qed.

Lemma mput_keys k v m x : In x (map fst (mput k v m)) <-> x = k \/ In x (map fst m).
Proof.
  induction m as [|[k0 v0] t IH]; cbn [mput map fst In]; [intuition|].
  destruct (String.eqb k k0) eqn:E; cbn [map fst In].
  - apply String.eqb_eq in E. subst. intuition.
  - rewrite IH. intuition.
Qed.

Lemma mput_nodup k v m : NoDup (map fst m) -> NoDup (map fst (mput k v m)).
Proof.
  induction m as [|[k0 v0] t IH]; cbn [mput map fst]; intros ND.
  - constructor; [intros []|constructor].
  - inversion ND as [|x l Hx ND']. subst. destruct (String.eqb k k0) eqn:E; cbn [map fst].
    + apply String.eqb_eq in E. subst. constructor; assumption.
    + apply String.eqb_neq in E. constructor; [|auto].
      rewrite mput_keys. intros [H|H]; [congruence|contradiction].
Qed.

Lemma mput_In k v m k' v' : NoDup (map fst m) ->
  (In (k', v') (mput k v m) <-> (k' = k /\ v' = v) \/ (k' <> k /\ In (k', v') m)).
Proof.
  induction m as [|[k0 v0] t IH]; cbn [mput map fst In]; intros ND.
  - split; [intros [H|[]]; inversion H; auto|intros [[-> ->]|[_ []]]; auto].
  - inversion ND as [|x l Hx ND']. subst. destruct (String.eqb k k0) eqn:E; cbn [In].
    + apply String.eqb_eq in E. subst. split.
      * intros [H|H]; [inversion H; auto|]. right. split; [|auto].
        intros ->. apply Hx. eapply In_keys; eauto.
      * intros [[-> ->]|[N [H|H]]]; [auto| |auto]. inversion H. congruence.
    + apply String.eqb_neq in E. rewrite (IH ND'). split.
      * intros [H|[H|[N H]]]; [inversion H; subst; right; split; [congruence|auto]|auto|auto].
      * intros [H|[N [H|H]]]; auto.
Qed.

Lemma del_In k m k' v' : In (k', v') (del k m) <-> k' <> k /\ In (k', v') m.
Proof.
  unfold del. rewrite filter_In. cbn [fst]. split.
  - intros [H N]. split; [|exact H]. intros ->. rewrite String.eqb_refl in N. discriminate.
  - intros [N H]. split; [exact H|]. apply negb_true_iff. apply String.eqb_neq. congruence.
Qed.

Lemma del_keys k m x : In x (map fst (del k m)) <-> x <> k /\ In x (map fst m).
Proof.
  rewrite !in_map_iff. split.
  - intros [[a b] [E H]]. cbn [fst] in E. subst. apply del_In in H as [N H]. split; [exact N|]. exists (x, b). auto.
  - intros [N [[a b] [E H]]]. cbn [fst] in E. subst. exists (x, b). split; [reflexivity|]. apply del_In. auto.
Qed.

Lemma del_nodup k m : NoDup (map fst m) -> NoDup (map fst (del k m)).
Proof.
  induction m as [|[k0 v0] t IH]; cbn [del filter map fst]; intros ND; [constructor|].
  inversion ND as [|x l Hx ND']. subst. cbn [fst]. destruct (negb (String.eqb k k0)); cbn [map fst].
  - constructor; [|apply IH; exact ND']. fold (del k t). rewrite del_keys. tauto.
  - apply IH. exact ND'.
Qed.

Lemma no_entries_nil m : (forall k v, ~ In (k, v) m) -> m = [].
Proof. destruct m as [|[k v] t]; [reflexivity|]. intros H. exfalso. apply (H k v). left. reflexivity. Qed.
End Maps.

(* ================= heap ================= *)
Lemma hget_hupd i j f h :
  hget i (hupd j f h) = if Nat.eqb j i then option_map f (hget i h) else hget i h.
Proof.
  induction h as [|[x o] t IH]; cbn [hupd map hget fst snd].
  - destruct (Nat.eqb j i); reflexivity.
  - fold (hupd j f t). destruct (Nat.eqb j x) eqn:Ejx; cbn [hget fst snd].
    + apply Nat.eqb_eq in Ejx. subst x. destruct (Nat.eqb i j) eqn:Eij.
      * apply Nat.eqb_eq in Eij. subst. rewrite Nat.eqb_refl. reflexivity.
      * exact IH.
    + destruct (Nat.eqb i x) eqn:Eix.
      * apply Nat.eqb_eq in Eix. subst x. rewrite Ejx. reflexivity.
      * exact IH.
Qed.

Lemma hget_app i h n o :
  hget i (h ++ [(n, o)]) = match hget i h with Some x => Some x | None => if Nat.eqb i n then Some o else None end.
Proof.
  induction h as [|[x o'] t IH]; cbn [app hget]; [reflexivity|].
  destruct (Nat.eqb i x); [reflexivity|exact IH].
Qed.

Lemma name_of_hupd h i j f : (forall o, o_name (f o) = o_name o) -> name_of (hupd j f h) i = name_of h i.
Proof.
  intros Hf. unfold name_of. rewrite hget_hupd. destruct (Nat.eqb j i); [|reflexivity].
  destruct (hget i h); cbn [option_map]; [apply Hf|reflexivity].
Qed.

(* two heaps with the same objects up to the matched / matchedBy maps (shapeL), resp. up to the
   roles / users maps (shapeM) *)
Definition shape (R : robj -> robj -> Prop) (h h' : list (nat * robj)) : Prop :=
  forall x, match hget x h, hget x h' with
            | Some o, Some o' => R o o'
            | None, None => True
            | _, _ => False
            end.
Definition sameL (o o' : robj) : Prop :=
  o_name o' = o_name o /\ o_roles o' = o_roles o /\ o_users o' = o_users o.
Definition sameM (o o' : robj) : Prop :=
  o_name o' = o_name o /\ o_matched o' = o_matched o /\ o_matchedBy o' = o_matchedBy o.
Notation shapeL := (shape sameL).
Notation shapeM := (shape sameM).

Lemma shape_refl (R : robj -> robj -> Prop) h : (forall o, R o o) -> shape R h h.
Proof. intros HR x. destruct (hget x h); auto. Qed.
Lemma shape_trans (R : robj -> robj -> Prop) h1 h2 h3 : (forall a b c, R a b -> R b c -> R a c) ->
  shape R h1 h2 -> shape R h2 h3 -> shape R h1 h3.
Proof.
  intros HR H12 H23 x. specialize (H12 x). specialize (H23 x).
  destruct (hget x h1), (hget x h2), (hget x h3); try tauto. eapply HR; eauto.
Qed.
Lemma sameL_refl o : sameL o o. Proof. repeat split. Qed.
Lemma sameM_refl o : sameM o o. Proof. repeat split. Qed.
Lemma sameL_trans a b c : sameL a b -> sameL b c -> sameL a c.
Proof. unfold sameL. intros [H1 [H2 H3]] [H4 [H5 H6]]. repeat split; congruence. Qed.
Lemma sameM_trans a b c : sameM a b -> sameM b c -> sameM a c.
Proof. unfold sameM. intros [H1 [H2 H3]] [H4 [H5 H6]]. repeat split; congruence. Qed.

Lemma shape_hupd (R : robj -> robj -> Prop) h j f : (forall o, R o o) -> (forall o, R o (f o)) -> shape R h (hupd j f h).
Proof.
  intros Hr Hf x. rewrite hget_hupd. destruct (Nat.eqb j x); destruct (hget x h); cbn [option_map]; auto.
Qed.

Lemma shape_get (R : robj -> robj -> Prop) h h' x o' :
  shape R h h' -> hget x h' = Some o' -> exists o, hget x h = Some o /\ R o o'.
Proof. intros S H. specialize (S x). rewrite H in S. destruct (hget x h) as [o|]; [eauto|contradiction]. Qed.
Lemma shape_get_fwd (R : robj -> robj -> Prop) h h' x o :
  shape R h h' -> hget x h = Some o -> exists o', hget x h' = Some o' /\ R o o'.
Proof. intros S H. specialize (S x). rewrite H in S. destruct (hget x h') as [o'|]; [eauto|contradiction]. Qed.

Lemma fold_shape (R : robj -> robj -> Prop) {X} (g : list (nat * robj) -> X -> list (nat * robj)) l h :
  (forall o, R o o) -> (forall a b c, R a b -> R b c -> R a c) ->
  (forall hh x, shape R hh (g hh x)) -> shape R h (fold_left g l h).
Proof.
  intros Hr Ht Hg. revert h. induction l as [|x t IH]; intros h; cbn [fold_left].
  - apply shape_refl. exact Hr.
  - eapply shape_trans; [exact Ht|apply Hg|apply IH].
Qed.

Lemma shapeL_add_match h a b : shapeL h (role_add_match h a b).
Proof.
  unfold role_add_match. eapply shape_trans; [exact sameL_trans| |];
    apply shape_hupd; try exact sameL_refl; intros o; repeat split.
Qed.
Lemma shapeL_remove_match h a b : shapeL h (role_remove_match h a b).
Proof.
  unfold role_remove_match. eapply shape_trans; [exact sameL_trans| |];
    apply shape_hupd; try exact sameL_refl; intros o; repeat split.
Qed.
Lemma shapeL_remove_matches h i : shapeL h (role_remove_matches h i).
Proof.
  unfold role_remove_matches. eapply shape_trans; [exact sameL_trans| |];
    apply fold_shape; try exact sameL_refl; try exact sameL_trans; intros hh x; apply shapeL_remove_match.
Qed.
Lemma shapeM_add_role h a b : shapeM h (role_add_role h a b).
Proof.
  unfold role_add_role. eapply shape_trans; [exact sameM_trans| |];
    apply shape_hupd; try exact sameM_refl; intros o; repeat split.
Qed.
Lemma shapeM_remove_role h a b : shapeM h (role_remove_role h a b).
Proof.
  unfold role_remove_role. eapply shape_trans; [exact sameM_trans| |];
    apply shape_hupd; try exact sameM_refl; intros o; repeat split.
Qed.

(* ================= well-formedness ================= *)
Definition regd (s : rmgr) (k : string) (i : nat) : Prop := In (k, i) (m_all s).

(* structure: ids are allocated, allRoles is a map onto objects carrying their own name, the
   roles / users maps point at REGISTERED objects and are mutually symmetric *)
Record WFs (s : rmgr) : Prop := mkWFs {
  ws_fresh : forall i o, hget i (m_heap s) = Some o -> i < m_next s;
  ws_nodup : NoDup (map fst (m_all s));
  ws_obj : forall k i, regd s k i -> exists o, hget i (m_heap s) = Some o /\ o_name o = k;
  ws_rnodup : forall k i o, regd s k i -> hget i (m_heap s) = Some o ->
      NoDup (map fst (o_roles o)) /\ NoDup (map fst (o_users o));
  ws_roles : forall k i o rk j, regd s k i -> hget i (m_heap s) = Some o -> In (rk, j) (o_roles o) ->
      regd s rk j /\ exists oj, hget j (m_heap s) = Some oj /\ In (k, i) (o_users oj);
  ws_users : forall k i o uk j, regd s k i -> hget i (m_heap s) = Some o -> In (uk, j) (o_users o) ->
      regd s uk j /\ exists oj, hget j (m_heap s) = Some oj /\ In (k, i) (o_roles oj) }.

Lemma regd_fun s k i j : WFs s -> regd s k i -> regd s k j -> i = j.
Proof. intros W. apply In_fun. apply (ws_nodup _ W). Qed.
Lemma regd_inj s k k' i : WFs s -> regd s k i -> regd s k' i -> k = k'.
Proof.
  intros W H1 H2. destruct (ws_obj _ W _ _ H1) as [o [G N]]. destruct (ws_obj _ W _ _ H2) as [o' [G' N']]. congruence.
Qed.
Lemma regd_lookup s k i : WFs s -> (regd s k i <-> lookup k (m_all s) = Some i).
Proof. intros W. split; [apply In_lookup; apply (ws_nodup _ W)|apply lookup_In]. Qed.
Lemma regd_name s k i o : WFs s -> regd s k i -> hget i (m_heap s) = Some o -> o_name o = k.
Proof. intros W H G. destruct (ws_obj _ W _ _ H) as [o' [G' N]]. congruence. Qed.

Lemma WFs_shape s h' b : WFs s -> shapeL (m_heap s) h' -> WFs (mkRm h' (m_next s) (m_all s) b).
Proof.
  intros W S. constructor; cbn [m_heap m_next m_all]; unfold regd; cbn [m_all].
  - intros i o' G. destruct (shape_get _ _ _ _ _ S G) as [o [G0 _]]. eapply ws_fresh; eauto.
  - apply (ws_nodup _ W).
  - intros k i H. destruct (ws_obj _ W _ _ H) as [o [G N]].
    destruct (shape_get_fwd _ _ _ _ _ S G) as [o' [G' [E _]]]. exists o'. split; [exact G'|congruence].
  - intros k i o' H G. destruct (shape_get _ _ _ _ _ S G) as [o [G0 [_ [E1 E2]]]]. rewrite E1, E2.
    eapply ws_rnodup; eauto.
  - intros k i o' rk j H G HI. destruct (shape_get _ _ _ _ _ S G) as [o [G0 [_ [E1 E2]]]]. rewrite E1 in HI.
    destruct (ws_roles _ W _ _ _ _ _ H G0 HI) as [R [oj [Gj Hj]]]. split; [exact R|].
    destruct (shape_get_fwd _ _ _ _ _ S Gj) as [oj' [Gj' [_ [_ E]]]]. exists oj'. split; [exact Gj'|]. rewrite E. exact Hj.
  - intros k i o' uk j H G HI. destruct (shape_get _ _ _ _ _ S G) as [o [G0 [_ [E1 E2]]]]. rewrite E2 in HI.
    destruct (ws_users _ W _ _ _ _ _ H G0 HI) as [R [oj [Gj Hj]]]. split; [exact R|].
    destruct (shape_get_fwd _ _ _ _ _ S Gj) as [oj' [Gj' [_ [E _]]]]. exists oj'. split; [exact Gj'|]. rewrite E. exact Hj.
Qed.

(* a fresh object registered under a new name *)
Lemma WFs_alloc s name b : WFs s -> lookup name (m_all s) = None ->
  WFs (mkRm (m_heap s ++ [(m_next s, new_obj name)]) (S (m_next s)) (mput name (m_next s) (m_all s)) b).
Proof.
  intros W HN.
  assert (Hfresh : hget (m_next s) (m_heap s) = None).
  { destruct (hget (m_next s) (m_heap s)) eqn:G; [|reflexivity]. apply (ws_fresh _ W) in G. lia. }
  assert (Hold : forall x o, hget x (m_heap s) = Some o -> hget x (m_heap s ++ [(m_next s, new_obj name)]) = Some o).
  { intros x o G. rewrite hget_app, G. reflexivity. }
  assert (Hnk : forall k i, regd s k i -> k <> name).
  { intros k i H ->. apply lookup_None_notin in HN. apply HN. eapply In_keys; eauto. }
  assert (Hin : forall k i, regd s k i -> In (k, i) (mput name (m_next s) (m_all s))).
  { intros k i H. apply mput_In; [apply (ws_nodup _ W)|]. right. split; [eapply Hnk; eauto|exact H]. }
  assert (Hcases : forall k i, In (k, i) (mput name (m_next s) (m_all s)) -> (k = name /\ i = m_next s) \/ regd s k i).
  { intros k i H. apply mput_In in H; [|apply (ws_nodup _ W)]. destruct H as [H|[_ H]]; auto. }
  constructor; cbn [m_heap m_next m_all]; unfold regd; cbn [m_all].
  - intros i o G. rewrite hget_app in G. destruct (hget i (m_heap s)) eqn:G0.
    + apply (ws_fresh _ W) in G0. lia.
    + destruct (Nat.eqb i (m_next s)) eqn:E; [apply Nat.eqb_eq in E; lia|discriminate].
  - apply mput_nodup. apply (ws_nodup _ W).
  - intros k i H. apply Hcases in H as [[-> ->]|H].
    + exists (new_obj name). split; [|reflexivity]. rewrite hget_app, Hfresh, Nat.eqb_refl. reflexivity.
    + destruct (ws_obj _ W _ _ H) as [o [G N]]. exists o. split; [apply Hold; exact G|exact N].
  - intros k i o H G. apply Hcases in H as [[-> ->]|H].
    + rewrite hget_app, Hfresh, Nat.eqb_refl in G. inversion G. cbn. split; constructor.
    + destruct (ws_obj _ W _ _ H) as [o0 [G0 _]]. rewrite (Hold _ _ G0) in G. inversion G. subst o0.
      eapply ws_rnodup; eauto.
  - intros k i o rk j H G HI. apply Hcases in H as [[-> ->]|H].
    + rewrite hget_app, Hfresh, Nat.eqb_refl in G. inversion G. subst o. destruct HI.
    + destruct (ws_obj _ W _ _ H) as [o0 [G0 _]]. rewrite (Hold _ _ G0) in G. inversion G. subst o0.
      destruct (ws_roles _ W _ _ _ _ _ H G0 HI) as [R [oj [Gj Hj]]]. split; [apply Hin; exact R|].
      exists oj. split; [apply Hold; exact Gj|exact Hj].
  - intros k i o uk j H G HI. apply Hcases in H as [[-> ->]|H].
    + rewrite hget_app, Hfresh, Nat.eqb_refl in G. inversion G. subst o. destruct HI.
    + destruct (ws_obj _ W _ _ H) as [o0 [G0 _]]. rewrite (Hold _ _ G0) in G. inversion G. subst o0.
      destruct (ws_users _ W _ _ _ _ _ H G0 HI) as [R [oj [Gj Hj]]]. split; [apply Hin; exact R|].
      exists oj. split; [apply Hold; exact Gj|exact Hj].
Qed.

(* a registered object without roles and users can be dropped from allRoles *)
Lemma WFs_unreg s name i o : WFs s -> regd s name i -> hget i (m_heap s) = Some o ->
  o_roles o = [] -> o_users o = [] ->
  WFs (mkRm (m_heap s) (m_next s) (del name (m_all s)) (m_mf s)).
Proof.
  intros W HR G Er Eu.
  constructor; cbn [m_heap m_next m_all]; unfold regd; cbn [m_all].
  - apply (ws_fresh _ W).
  - apply del_nodup. apply (ws_nodup _ W).
  - intros k j H. apply del_In in H as [_ H]. apply (ws_obj _ W _ _ H).
  - intros k j oj H. apply del_In in H as [_ H]. apply (ws_rnodup _ W _ _ _ H).
  - intros k j oj rk x H Gj HI. apply del_In in H as [Nk H].
    destruct (ws_roles _ W _ _ _ _ _ H Gj HI) as [R [ox [Gx Hx]]]. split; [|eauto].
    apply del_In. split; [|exact R]. intros ->.
    assert (x = i) by (eapply regd_fun; eauto). subst x. rewrite G in Gx. inversion Gx. subst ox.
    rewrite Eu in Hx. destruct Hx.
  - intros k j oj uk x H Gj HI. apply del_In in H as [Nk H].
    destruct (ws_users _ W _ _ _ _ _ H Gj HI) as [R [ox [Gx Hx]]]. split; [|eauto].
    apply del_In. split; [|exact R]. intros ->.
    assert (x = i) by (eapply regd_fun; eauto). subst x. rewrite G in Gx. inversion Gx. subst ox.
    rewrite Er in Hx. destruct Hx.
Qed.

Lemma mput_In_keep {A} k0 (v0 : A) m k v :
  NoDup (map fst m) -> In (k, v) m -> (k = k0 -> v = v0) -> In (k, v) (mput k0 v0 m).
Proof.
  intros ND H Hk. apply mput_In; [exact ND|]. destruct (string_dec k k0) as [E|E]; [left; auto|right; auto].
Qed.

(* closed forms of addRole / removeRole on the heap *)
Lemma add_role_get h u r x :
  hget x (role_add_role h u r) =
  option_map (fun o => mkRobj (o_name o)
                         (if Nat.eqb u x then mput (name_of h r) r (o_roles o) else o_roles o)
                         (if Nat.eqb r x then mput (name_of h u) u (o_users o) else o_users o)
                         (o_matched o) (o_matchedBy o)) (hget x h).
Proof.
  unfold role_add_role. rewrite !hget_hupd.
  destruct (Nat.eqb r x), (Nat.eqb u x), (hget x h) as [[n a b c d]|]; reflexivity.
Qed.
Lemma remove_role_get h u r x :
  hget x (role_remove_role h u r) =
  option_map (fun o => mkRobj (o_name o)
                         (if Nat.eqb u x then del (name_of h r) (o_roles o) else o_roles o)
                         (if Nat.eqb r x then del (name_of h u) (o_users o) else o_users o)
                         (o_matched o) (o_matchedBy o)) (hget x h).
Proof.
  unfold role_remove_role. rewrite !hget_hupd.
  destruct (Nat.eqb r x), (Nat.eqb u x), (hget x h) as [[n a b c d]|]; reflexivity.
Qed.

Lemma name_of_regd s k i : WFs s -> regd s k i -> name_of (m_heap s) i = k.
Proof. intros W H. destruct (ws_obj _ W _ _ H) as [o [G N]]. unfold name_of. rewrite G. exact N. Qed.

Lemma add_role_WFs s u r un rn : WFs s -> regd s un u -> regd s rn r ->
  WFs (set_heap s (role_add_role (m_heap s) u r)).
Proof.
  intros W Hu Hr. pose proof (name_of_regd _ _ _ W Hu) as Nu. pose proof (name_of_regd _ _ _ W Hr) as Nr.
  constructor; cbn [set_heap m_heap m_next m_all]; unfold regd; cbn [set_heap m_all].
  - intros i o G. rewrite add_role_get in G. destruct (hget i (m_heap s)) eqn:G0; [|discriminate].
    eapply ws_fresh; eauto.
  - apply (ws_nodup _ W).
  - intros k i H. destruct (ws_obj _ W _ _ H) as [o [G N]]. rewrite add_role_get, G. cbn [option_map].
    eexists. split; [reflexivity|exact N].
  - intros k i o' H G. rewrite add_role_get in G. destruct (hget i (m_heap s)) as [o|] eqn:G0; [|discriminate].
    inversion G. subst o'. cbn [o_roles o_users]. destruct (ws_rnodup _ W _ _ _ H G0) as [N1 N2].
    split; [destruct (Nat.eqb u i)|destruct (Nat.eqb r i)]; try assumption; apply mput_nodup; assumption.
  - intros k i o' rk j H G HI. rewrite add_role_get in G. destruct (hget i (m_heap s)) as [o|] eqn:G0; [|discriminate].
    inversion G. subst o'. cbn [o_roles] in HI. rewrite Nu, Nr in *.
    assert (Hkeep : forall oj, hget j (m_heap s) = Some oj -> regd s rk j -> In (k, i) (o_users oj) ->
             exists oj', hget j (role_add_role (m_heap s) u r) = Some oj' /\ In (k, i) (o_users oj')).
    { intros oj Gj Rj Hj. rewrite add_role_get, Gj. cbn [option_map]. eexists. split; [reflexivity|].
      cbn [o_users]. rewrite Nu. destruct (Nat.eqb r j); [|exact Hj].
      apply mput_In_keep; [apply (ws_rnodup _ W _ _ _ Rj Gj)|exact Hj|].
      intros ->. eapply regd_fun; eauto. }
    destruct (Nat.eqb u i) eqn:Eui.
    + apply Nat.eqb_eq in Eui. subst i. assert (k = un) by (eapply regd_inj; eauto). subst k.
      apply mput_In in HI; [|apply (ws_rnodup _ W _ _ _ H G0)]. destruct HI as [[-> ->]|[Nk HI]].
      * split; [exact Hr|]. destruct (ws_obj _ W _ _ Hr) as [orr [Gr _]].
        rewrite add_role_get, Gr. cbn [option_map]. eexists. split; [reflexivity|]. cbn [o_users].
        rewrite Nat.eqb_refl, Nu. apply mput_In; [apply (ws_rnodup _ W _ _ _ Hr Gr)|]. left. auto.
      * destruct (ws_roles _ W _ _ _ _ _ H G0 HI) as [R [oj [Gj Hj]]]. split; [exact R|]. eapply Hkeep; eauto.
    + destruct (ws_roles _ W _ _ _ _ _ H G0 HI) as [R [oj [Gj Hj]]]. split; [exact R|]. eapply Hkeep; eauto.
  - intros k i o' uk j H G HI. rewrite add_role_get in G. destruct (hget i (m_heap s)) as [o|] eqn:G0; [|discriminate].
    inversion G. subst o'. cbn [o_users] in HI. rewrite Nu, Nr in *.
    assert (Hkeep : forall oj, hget j (m_heap s) = Some oj -> regd s uk j -> In (k, i) (o_roles oj) ->
             exists oj', hget j (role_add_role (m_heap s) u r) = Some oj' /\ In (k, i) (o_roles oj')).
    { intros oj Gj Rj Hj. rewrite add_role_get, Gj. cbn [option_map]. eexists. split; [reflexivity|].
      cbn [o_roles]. rewrite Nr. destruct (Nat.eqb u j); [|exact Hj].
      apply mput_In_keep; [apply (ws_rnodup _ W _ _ _ Rj Gj)|exact Hj|].
      intros ->. eapply regd_fun; eauto. }
    destruct (Nat.eqb r i) eqn:Eri.
    + apply Nat.eqb_eq in Eri. subst i. assert (k = rn) by (eapply regd_inj; eauto). subst k.
      apply mput_In in HI; [|apply (ws_rnodup _ W _ _ _ H G0)]. destruct HI as [[-> ->]|[Nk HI]].
      * split; [exact Hu|]. destruct (ws_obj _ W _ _ Hu) as [ou [Gu _]].
        rewrite add_role_get, Gu. cbn [option_map]. eexists. split; [reflexivity|]. cbn [o_roles].
        rewrite Nat.eqb_refl, Nr. apply mput_In; [apply (ws_rnodup _ W _ _ _ Hu Gu)|]. left. auto.
      * destruct (ws_users _ W _ _ _ _ _ H G0 HI) as [R [oj [Gj Hj]]]. split; [exact R|]. eapply Hkeep; eauto.
    + destruct (ws_users _ W _ _ _ _ _ H G0 HI) as [R [oj [Gj Hj]]]. split; [exact R|]. eapply Hkeep; eauto.
Qed.

Lemma remove_role_WFs s u r un rn : WFs s -> regd s un u -> regd s rn r ->
  WFs (set_heap s (role_remove_role (m_heap s) u r)).
Proof.
  intros W Hu Hr. pose proof (name_of_regd _ _ _ W Hu) as Nu. pose proof (name_of_regd _ _ _ W Hr) as Nr.
  constructor; cbn [set_heap m_heap m_next m_all]; unfold regd; cbn [set_heap m_all].
  - intros i o G. rewrite remove_role_get in G. destruct (hget i (m_heap s)) eqn:G0; [|discriminate].
    eapply ws_fresh; eauto.
  - apply (ws_nodup _ W).
  - intros k i H. destruct (ws_obj _ W _ _ H) as [o [G N]]. rewrite remove_role_get, G. cbn [option_map].
    eexists. split; [reflexivity|exact N].
  - intros k i o' H G. rewrite remove_role_get in G. destruct (hget i (m_heap s)) as [o|] eqn:G0; [|discriminate].
    inversion G. subst o'. cbn [o_roles o_users]. destruct (ws_rnodup _ W _ _ _ H G0) as [N1 N2].
    split; [destruct (Nat.eqb u i)|destruct (Nat.eqb r i)]; try assumption; apply del_nodup; assumption.
  - intros k i o' rk j H G HI. rewrite remove_role_get in G. destruct (hget i (m_heap s)) as [o|] eqn:G0; [|discriminate].
    inversion G. subst o'. cbn [o_roles] in HI. rewrite Nu, Nr in *.
    assert (HI0 : In (rk, j) (o_roles o) /\ (u = i -> rk <> rn)).
    { destruct (Nat.eqb u i) eqn:E.
      - apply del_In in HI as [N HI]. auto.
      - apply Nat.eqb_neq in E. split; [exact HI|congruence]. }
    destruct HI0 as [HI0 Hn].
    destruct (ws_roles _ W _ _ _ _ _ H G0 HI0) as [R [oj [Gj Hj]]]. split; [exact R|].
    rewrite remove_role_get, Gj. cbn [option_map]. eexists. split; [reflexivity|]. cbn [o_users]. rewrite Nu.
    destruct (Nat.eqb r j) eqn:Erj; [|exact Hj]. apply Nat.eqb_eq in Erj. subst j.
    apply del_In. split; [|exact Hj]. intros ->.
    assert (i = u) by (eapply regd_fun; eauto). subst i.
    apply (Hn eq_refl). eapply regd_inj; eauto.
  - intros k i o' uk j H G HI. rewrite remove_role_get in G. destruct (hget i (m_heap s)) as [o|] eqn:G0; [|discriminate].
    inversion G. subst o'. cbn [o_users] in HI. rewrite Nu, Nr in *.
    assert (HI0 : In (uk, j) (o_users o) /\ (r = i -> uk <> un)).
    { destruct (Nat.eqb r i) eqn:E.
      - apply del_In in HI as [N HI]. auto.
      - apply Nat.eqb_neq in E. split; [exact HI|congruence]. }
    destruct HI0 as [HI0 Hn].
    destruct (ws_users _ W _ _ _ _ _ H G0 HI0) as [R [oj [Gj Hj]]]. split; [exact R|].
    rewrite remove_role_get, Gj. cbn [option_map]. eexists. split; [reflexivity|]. cbn [o_roles]. rewrite Nr.
    destruct (Nat.eqb u j) eqn:Euj; [|exact Hj]. apply Nat.eqb_eq in Euj. subst j.
    apply del_In. split; [|exact Hj]. intros ->.
    assert (i = r) by (eapply regd_fun; eauto). subst i.
    apply (Hn eq_refl). eapply regd_inj; eauto.
Qed.

(* the links: (x, y) is listed iff the object registered as x has a roles entry with key y *)
Lemma links_of_In s x y : WFs s ->
  (In (x, y) (links_of s) <-> exists i o, regd s x i /\ hget i (m_heap s) = Some o /\ In y (map fst (o_roles o))).
Proof.
  intros W. unfold links_of. rewrite in_flat_map. split.
  - intros [[k i] [H HI]]. cbn [snd] in HI. destruct (hget i (m_heap s)) as [o|] eqn:G; [|destruct HI].
    apply in_map_iff in HI as [[rk j] [E HI]]. cbn [fst] in E. inversion E. subst.
    exists i, o. split; [|split; [exact G|eapply In_keys; eauto]].
    rewrite (regd_name _ _ _ _ W H G). exact H.
  - intros [i [o [H [G HI]]]]. exists (x, i). split; [exact H|]. cbn [snd]. rewrite G.
    apply in_map_iff in HI as [[rk j] [E HI]]. cbn [fst] in E. subst rk.
    apply in_map_iff. exists (y, j). split; [|exact HI]. cbn [fst]. rewrite (regd_name _ _ _ _ W H G). reflexivity.
Qed.

Lemma add_role_links s u r un rn x y : WFs s -> regd s un u -> regd s rn r ->
  (In (x, y) (links_of (set_heap s (role_add_role (m_heap s) u r))) <-> (x = un /\ y = rn) \/ In (x, y) (links_of s)).
Proof.
  intros W Hu Hr. pose proof (add_role_WFs _ _ _ _ _ W Hu Hr) as W'.
  pose proof (name_of_regd _ _ _ W Hu) as Nu. pose proof (name_of_regd _ _ _ W Hr) as Nr.
  rewrite (links_of_In _ _ _ W'), (links_of_In _ _ _ W). cbn [set_heap m_heap]. unfold regd. cbn [set_heap m_all]. split.
  - intros [i [o' [H [G HI]]]]. rewrite add_role_get in G. destruct (hget i (m_heap s)) as [o|] eqn:G0; [|discriminate].
    inversion G. subst o'. cbn [o_roles] in HI. rewrite Nr in HI. destruct (Nat.eqb u i) eqn:E.
    + apply Nat.eqb_eq in E. subst i. apply mput_keys in HI as [->|HI].
      * left. split; [eapply regd_inj; eauto|reflexivity].
      * right. exists u, o. auto.
    + right. exists i, o. auto.
  - intros [[-> ->]|[i [o [H [G HI]]]]].
    + destruct (ws_obj _ W _ _ Hu) as [ou [Gu _]]. exists u. rewrite add_role_get, Gu. cbn [option_map]. eexists.
      split; [exact Hu|split; [reflexivity|]]. cbn [o_roles]. rewrite Nat.eqb_refl, Nr. apply mput_keys. left. reflexivity.
    + exists i. rewrite add_role_get, G. cbn [option_map]. eexists. split; [exact H|split; [reflexivity|]]. cbn [o_roles].
      destruct (Nat.eqb u i); [|exact HI]. apply mput_keys. right. exact HI.
Qed.

Lemma remove_role_links s u r un rn x y : WFs s -> regd s un u -> regd s rn r ->
  (In (x, y) (links_of (set_heap s (role_remove_role (m_heap s) u r))) <-> ~ (x = un /\ y = rn) /\ In (x, y) (links_of s)).
Proof.
  intros W Hu Hr. pose proof (remove_role_WFs _ _ _ _ _ W Hu Hr) as W'.
  pose proof (name_of_regd _ _ _ W Hu) as Nu. pose proof (name_of_regd _ _ _ W Hr) as Nr.
  rewrite (links_of_In _ _ _ W'), (links_of_In _ _ _ W). cbn [set_heap m_heap]. unfold regd. cbn [set_heap m_all]. split.
  - intros [i [o' [H [G HI]]]]. rewrite remove_role_get in G. destruct (hget i (m_heap s)) as [o|] eqn:G0; [|discriminate].
    inversion G. subst o'. cbn [o_roles] in HI. rewrite Nr in HI. destruct (Nat.eqb u i) eqn:E.
    + apply Nat.eqb_eq in E. subst i. apply del_keys in HI as [N HI]. split; [tauto|]. exists u, o. auto.
    + apply Nat.eqb_neq in E. split; [|exists i, o; auto]. intros [-> ->]. apply E. eapply regd_fun; eauto.
  - intros [N [i [o [H [G HI]]]]]. exists i. rewrite remove_role_get, G. cbn [option_map]. eexists.
    split; [exact H|split; [reflexivity|]]. cbn [o_roles]. rewrite Nr. destruct (Nat.eqb u i) eqn:E; [|exact HI].
    apply Nat.eqb_eq in E. subst i. apply del_keys. split; [|exact HI]. intros ->. apply N. split; [|reflexivity].
    eapply regd_inj; eauto.
Qed.

Lemma mput_In_weak {A} k (v : A) m k' v' : In (k', v') (mput k v m) -> (k' = k /\ v' = v) \/ In (k', v') m.
Proof.
  induction m as [|[k0 v0] t IH]; cbn [mput In].
  - intros [H|[]]. inversion H. auto.
  - destruct (String.eqb k k0); cbn [In].
    + intros [H|H]; [inversion H; auto|auto].
    + intros [H|H]; [auto|]. apply IH in H. tauto.
Qed.

Lemma fold_mput_In (l acc : list (string * nat)) k v :
  In (k, v) (fold_left (fun a q => mput (fst q) (snd q) a) l acc) -> In (k, v) acc \/ In (k, v) l.
Proof.
  revert acc. induction l as [|[k0 v0] t IH]; intros acc; cbn [fold_left fst snd]; [auto|].
  intros H. apply IH in H as [H|H]; [|cbn [In]; auto].
  apply mput_In_weak in H as [[-> ->]|H]; cbn [In]; auto.
Qed.
Lemma fold_mput_keys (l acc : list (string * nat)) k :
  In k (map fst (fold_left (fun a q => mput (fst q) (snd q) a) l acc)) <-> In k (map fst acc) \/ In k (map fst l).
Proof.
  revert acc. induction l as [|[k0 v0] t IH]; intros acc; cbn [fold_left fst snd map In]; [tauto|].
  rewrite IH, mput_keys. intuition.
Qed.

Section WithMatching.
Variable mf : string -> string -> bool.

(* matched / matchedBy hold exactly the registered names related by the matching function *)
Definition WFm (s : rmgr) : Prop :=
  forall k i o, regd s k i -> hget i (m_heap s) = Some o ->
    NoDup (map fst (o_matched o)) /\ NoDup (map fst (o_matchedBy o)) /\
    (forall mk j, In (mk, j) (o_matched o) <-> regd s mk j /\ mk <> k /\ m_mf s = true /\ mf mk k = true) /\
    (forall pk j, In (pk, j) (o_matchedBy o) <-> regd s pk j /\ pk <> k /\ m_mf s = true /\ mf k pk = true).

Definition WF (s : rmgr) : Prop := WFs s /\ WFm s.

Lemma WFm_nomf s : m_mf s = false ->
  (WFm s <-> forall k i o, regd s k i -> hget i (m_heap s) = Some o -> o_matched o = [] /\ o_matchedBy o = []).
Proof.
  intros Hm. split.
  - intros W k i o H G. destruct (W k i o H G) as [_ [_ [H1 H2]]]. split; apply no_entries_nil; intros a b HI.
    + apply H1 in HI. destruct HI as [_ [_ [E _]]]. congruence.
    + apply H2 in HI. destruct HI as [_ [_ [E _]]]. congruence.
  - intros W k i o H G. destruct (W k i o H G) as [E1 E2]. rewrite E1, E2. cbn [map].
    split; [constructor|split; [constructor|]]. split; intros a b; (split; [intros []|intros [_ [_ [E _]]]; congruence]).
Qed.

Lemma WFm_shape s h' : WFm s -> shapeM (m_heap s) h' -> WFm (mkRm h' (m_next s) (m_all s) (m_mf s)).
Proof.
  intros W S k i o' H G. cbn [m_heap] in G. unfold regd in *. cbn [m_all m_mf] in *.
  destruct (shape_get _ _ _ _ _ S G) as [o [G0 [_ [E1 E2]]]]. rewrite E1, E2. apply (W k i o H G0).
Qed.

Lemma WF_new b : WF (new_rm b).
Proof.
  split.
  - constructor; cbn; unfold regd; cbn; try tauto; try discriminate. constructor.
  - intros k i o []. 
Qed.
Lemma WF_clear s : WF (rm_clear s).
Proof. apply WF_new. Qed.

(* ---------- getRole ---------- *)
Definition gr_heap (s : rmgr) (name : string) : list (nat * robj) :=
  let i := m_next s in
  let h0 := m_heap s ++ [(i, new_obj name)] in
  let all := mput name i (m_all s) in
  if m_mf s then
    fold_left (fun hh p => if negb (String.eqb name (fst p)) && rm_match mf (m_mf s) (fst p) name
                           then role_add_match hh i (snd p) else hh) all
      (fold_left (fun hh p => if negb (String.eqb name (fst p)) && rm_match mf (m_mf s) name (fst p)
                              then role_add_match hh (snd p) i else hh) all h0)
  else h0.

Lemma get_role_new s name : lookup name (m_all s) = None ->
  get_role mf s name = (mkRm (gr_heap s name) (S (m_next s)) (mput name (m_next s) (m_all s)) (m_mf s), m_next s, true).
Proof. intros H. unfold get_role, gr_heap. rewrite H. reflexivity. Qed.
Lemma get_role_old s name i : lookup name (m_all s) = Some i -> get_role mf s name = (s, i, false).
Proof. intros H. unfold get_role. rewrite H. reflexivity. Qed.

Lemma gr_heap_shape s name : shapeL (m_heap s ++ [(m_next s, new_obj name)]) (gr_heap s name).
Proof.
  unfold gr_heap. destruct (m_mf s); [|apply shape_refl; exact sameL_refl].
  eapply shape_trans; [exact sameL_trans| |]; apply fold_shape; try exact sameL_refl; try exact sameL_trans;
    intros hh p; cbv beta; match goal with |- context [if ?c then _ else _] => destruct c end;
    try apply shapeL_add_match; apply shape_refl; exact sameL_refl.
Qed.

(* what every caller of getRole relies on, structure part *)
Lemma get_role_WFs s name s' i c : WFs s -> get_role mf s name = (s', i, c) ->
  WFs s' /\ regd s' name i /\ m_mf s' = m_mf s /\ (forall k j, regd s k j -> regd s' k j) /\
  (c = false -> s' = s) /\
  (c = true -> lookup name (m_all s) = None /\ i = m_next s /\ m_next s' = S (m_next s) /\
               m_all s' = mput name i (m_all s) /\
               shapeL (m_heap s ++ [(i, new_obj name)]) (m_heap s')).
Proof.
  intros W E. destruct (lookup name (m_all s)) as [i0|] eqn:L.
  - rewrite (get_role_old _ _ _ L) in E. inversion E. subst.
    split; [exact W|]. split; [apply lookup_In; exact L|]. repeat split; auto; discriminate.
  - rewrite (get_role_new _ _ L) in E. inversion E. subst. clear E.
    pose proof (WFs_alloc _ name (m_mf s) W L) as W0.
    pose proof (WFs_shape _ (gr_heap s name) (m_mf s) W0 (gr_heap_shape s name)) as W1. cbn [m_next m_all] in W1.
    split; [exact W1|]. split; [|split; [reflexivity|split; [|split; [discriminate|]]]].
    + unfold regd. cbn [m_all]. apply mput_In; [apply (ws_nodup _ W)|]. left. auto.
    + intros k j H. unfold regd. cbn [m_all]. apply mput_In; [apply (ws_nodup _ W)|]. right. split; [|exact H].
      intros ->. apply lookup_None_notin in L. apply L. eapply In_keys; eauto.
    + intros _. repeat split. apply gr_heap_shape.
Qed.

(* old objects keep name, roles and users through a creating getRole; the new one has none *)
Lemma alloc_old h h' i name x o :
  shapeL (h ++ [(i, new_obj name)]) h' -> hget x h = Some o ->
  exists o', hget x h' = Some o' /\ sameL o o'.
Proof. intros S G. apply (shape_get_fwd _ _ _ _ _ S). rewrite hget_app, G. reflexivity. Qed.
Lemma alloc_new h h' i name :
  shapeL (h ++ [(i, new_obj name)]) h' -> hget i h = None ->
  exists o', hget i h' = Some o' /\ o_name o' = name /\ o_roles o' = [] /\ o_users o' = [].
Proof.
  intros S G. destruct (shape_get_fwd _ _ _ i (new_obj name) S) as [o' [G' [E1 [E2 E3]]]].
  - rewrite hget_app, G, Nat.eqb_refl. reflexivity.
  - exists o'. auto.
Qed.
Lemma alloc_back h h' i name x o' :
  shapeL (h ++ [(i, new_obj name)]) h' -> hget x h' = Some o' -> hget i h = None ->
  (x = i /\ o_name o' = name /\ o_roles o' = [] /\ o_users o' = []) \/ (exists o, hget x h = Some o /\ sameL o o').
Proof.
  intros S G Hi. destruct (shape_get _ _ _ _ _ S G) as [o [G0 HS]]. rewrite hget_app in G0.
  destruct (hget x h) as [o0|] eqn:G1.
  - inversion G0. subst o0. right. eauto.
  - destruct (Nat.eqb x i) eqn:E; [|discriminate]. apply Nat.eqb_eq in E. inversion G0. subst. left.
    destruct HS as [E1 [E2 E3]]. auto.
Qed.

Lemma get_role_links s name s' i c x y : WFs s -> get_role mf s name = (s', i, c) ->
  (In (x, y) (links_of s') <-> In (x, y) (links_of s)).
Proof.
  intros W E. destruct (get_role_WFs _ _ _ _ _ W E) as [W' [Hi [_ [Hmono [Hf Ht]]]]].
  destruct c; [|rewrite (Hf eq_refl); tauto].
  destruct (Ht eq_refl) as [L [-> [_ [Ea S]]]].
  assert (Hfr : hget (m_next s) (m_heap s) = None).
  { destruct (hget (m_next s) (m_heap s)) eqn:G; [|reflexivity]. apply (ws_fresh _ W) in G. lia. }
  rewrite (links_of_In _ _ _ W'), (links_of_In _ _ _ W). split.
  - intros [j [o' [H [G HI]]]]. destruct (alloc_back _ _ _ _ _ _ S G Hfr) as [[-> [_ [Er _]]]|[o [G0 [_ [Er _]]]]].
    + rewrite Er in HI. destruct HI.
    + exists j, o. rewrite <- Er. split; [|auto]. unfold regd in H. rewrite Ea in H.
      apply mput_In in H; [|apply (ws_nodup _ W)]. destruct H as [[-> ->]|[_ H]]; [congruence|exact H].
  - intros [j [o [H [G HI]]]]. destruct (alloc_old _ _ _ _ _ _ S G) as [o' [G' [_ [Er _]]]].
    exists j, o'. rewrite Er. auto.
Qed.

(* without a matching function getRole leaves the matched maps empty *)
Lemma get_role_WFm_nomf s name s' i c : WF s -> m_mf s = false -> get_role mf s name = (s', i, c) -> WFm s'.
Proof.
  intros [W Wm] Hm E. destruct (lookup name (m_all s)) as [i0|] eqn:L.
  - rewrite (get_role_old _ _ _ L) in E. inversion E. subst. exact Wm.
  - rewrite (get_role_new _ _ L) in E. inversion E. subst. clear E.
    apply WFm_nomf; [exact Hm|]. cbn [m_heap m_all]. unfold gr_heap, regd. rewrite Hm. cbn [m_all].
    intros k j o H G. apply mput_In in H; [|apply (ws_nodup _ W)]. rewrite hget_app in G.
    assert (Hfr : hget (m_next s) (m_heap s) = None).
    { destruct (hget (m_next s) (m_heap s)) eqn:G1; [|reflexivity]. apply (ws_fresh _ W) in G1. lia. }
    destruct H as [[-> ->]|[_ H]].
    + rewrite Hfr, Nat.eqb_refl in G. inversion G. auto.
    + destruct (ws_obj _ W _ _ H) as [o0 [G0 _]]. rewrite G0 in G. inversion G. subst o0.
      apply (proj1 (WFm_nomf s Hm) Wm k j o H G0).
Qed.

(* ---------- removeRole ---------- *)
Lemma remove_role_eq s name i : lookup name (m_all s) = Some i ->
  remove_role s name = mkRm (role_remove_matches (m_heap s) i) (m_next s) (del name (m_all s)) (m_mf s).
Proof. intros H. unfold remove_role. rewrite H. reflexivity. Qed.

Lemma unreg_WFs s name i o : WFs s -> regd s name i -> hget i (m_heap s) = Some o ->
  o_roles o = [] -> o_users o = [] -> WFs (remove_role s name).
Proof.
  intros W H G Er Eu. rewrite (remove_role_eq _ _ i) by (apply regd_lookup; assumption).
  pose proof (WFs_shape _ _ (m_mf s) W (shapeL_remove_matches (m_heap s) i)) as W1.
  destruct (shape_get_fwd _ _ _ _ _ (shapeL_remove_matches (m_heap s) i) G) as [o' [G' [_ [E1 E2]]]].
  apply (WFs_unreg _ name i o' W1); cbn [m_heap m_all]; auto; congruence.
Qed.

Lemma unreg_links s name i o x y : WFs s -> regd s name i -> hget i (m_heap s) = Some o ->
  o_roles o = [] -> o_users o = [] ->
  (In (x, y) (links_of (remove_role s name)) <-> In (x, y) (links_of s)).
Proof.
  intros W H G Er Eu. pose proof (unreg_WFs _ _ _ _ W H G Er Eu) as W'.
  rewrite (links_of_In _ _ _ W'), (links_of_In _ _ _ W).
  rewrite (remove_role_eq _ _ i) by (apply regd_lookup; assumption). cbn [m_heap]. unfold regd. cbn [m_all].
  pose proof (shapeL_remove_matches (m_heap s) i) as S. split.
  - intros [j [o' [Hj [Gj HI]]]]. destruct (shape_get _ _ _ _ _ S Gj) as [o0 [G0 [_ [E1 _]]]].
    apply del_In in Hj as [_ Hj]. exists j, o0. rewrite <- E1. auto.
  - intros [j [o0 [Hj [G0 HI]]]]. destruct (shape_get_fwd _ _ _ _ _ S G0) as [o' [Gj [_ [E1 _]]]].
    exists j, o'. rewrite E1. split; [|auto]. apply del_In. split; [|exact Hj]. intros ->.
    assert (j = i) by (exact (regd_fun s name j i W Hj H)). subst j. rewrite G in G0. inversion G0. subst o0.
    rewrite Er in HI. destruct HI.
Qed.

Lemma unreg_WFm_nomf s name : WF s -> m_mf s = false -> WFm (remove_role s name).
Proof.
  intros [W Wm] Hm. destruct (lookup name (m_all s)) as [i|] eqn:L; [|unfold remove_role; rewrite L; exact Wm].
  rewrite (remove_role_eq _ _ _ L). apply lookup_In in L.
  destruct (ws_obj _ W _ _ L) as [o [G _]]. destruct (proj1 (WFm_nomf s Hm) Wm _ _ _ L G) as [E1 E2].
  assert (Eh : role_remove_matches (m_heap s) i = m_heap s).
  { unfold role_remove_matches, obj_of. rewrite G, E1. cbn [fold_left]. rewrite G, E2. reflexivity. }
  rewrite Eh. apply WFm_nomf; [exact Hm|]. cbn [m_heap m_all]. unfold regd. cbn [m_all].
  intros k j oj H Gj. apply del_In in H as [_ H]. apply (proj1 (WFm_nomf s Hm) Wm _ _ _ H Gj).
Qed.

(* ---------- the two places where the matched maps change, as proof obligations ----------
   Pm restricts the flag m_mf: (fun b => b = false) for managers without matching function
   (obligations discharged above), (fun _ => True) for the general case (discharged below). *)
Definition GRM (Pm : bool -> Prop) : Prop :=
  forall s name s' i c, WF s -> Pm (m_mf s) -> get_role mf s name = (s', i, c) -> WFm s'.
Definition URM (Pm : bool -> Prop) : Prop :=
  forall s name, WF s -> Pm (m_mf s) -> WFm (remove_role s name).

Lemma GRM_nomf : GRM (fun b => b = false).
Proof. intros s name s' i c W Hm E. eapply get_role_WFm_nomf; eauto. Qed.
Lemma URM_nomf : URM (fun b => b = false).
Proof. intros s name W Hm. apply unreg_WFm_nomf; assumption. Qed.

Section Generic.
Variable Pm : bool -> Prop.
Hypothesis HG : GRM Pm.
Hypothesis HU : URM Pm.

Lemma get_role_WF s name s' i c : WF s -> Pm (m_mf s) -> get_role mf s name = (s', i, c) ->
  WF s' /\ regd s' name i /\ m_mf s' = m_mf s /\ (forall k j, regd s k j -> regd s' k j).
Proof.
  intros W HP E. destruct (get_role_WFs _ _ _ _ _ (proj1 W) E) as [W' [Hi [Hm [Hmono _]]]].
  split; [split; [exact W'|eapply HG; eauto]|auto].
Qed.

Lemma get_role_regd s name s' i c k j : WFs s -> get_role mf s name = (s', i, c) ->
  (regd s' k j <-> (regd s k j \/ (c = true /\ k = name /\ j = i))).
Proof.
  intros W E. destruct (get_role_WFs _ _ _ _ _ W E) as [W' [Hi [_ [Hmono [Hf Ht]]]]]. destruct c.
  - destruct (Ht eq_refl) as [L [-> [_ [Ea _]]]]. unfold regd. rewrite Ea. rewrite mput_In by apply (ws_nodup _ W). split.
    + intros [[-> ->]|[_ H]]; auto.
    + intros [H|[_ [-> ->]]]; [|auto]. right. split; [|exact H]. intros ->. apply lookup_None_notin in L. apply L.
      eapply In_keys; eauto.
  - rewrite (Hf eq_refl). split; [auto|intros [H|[H _]]; [exact H|discriminate]].
Qed.

Lemma get_role_keeps s name s' i c x o : WFs s -> get_role mf s name = (s', i, c) ->
  hget x (m_heap s) = Some o -> exists o', hget x (m_heap s') = Some o' /\ sameL o o'.
Proof.
  intros W E G. destruct (get_role_WFs _ _ _ _ _ W E) as [_ [_ [_ [_ [Hf Ht]]]]]. destruct c.
  - destruct (Ht eq_refl) as [_ [-> [_ [_ S]]]]. eapply alloc_old; eauto.
  - rewrite (Hf eq_refl). exists o. split; [exact G|apply sameL_refl].
Qed.

Lemma get_role_created_empty s name s' i : WFs s -> get_role mf s name = (s', i, true) ->
  exists o, hget i (m_heap s') = Some o /\ o_roles o = [] /\ o_users o = [].
Proof.
  intros W E. destruct (get_role_WFs _ _ _ _ _ W E) as [_ [_ [_ [_ [_ Ht]]]]].
  destruct (Ht eq_refl) as [_ [-> [_ [_ S]]]].
  destruct (alloc_new _ _ _ _ S) as [o [G [_ [E1 E2]]]]; [|eauto].
  destruct (hget (m_next s) (m_heap s)) eqn:G; [|reflexivity]. apply (ws_fresh _ W) in G. lia.
Qed.

(* AddLink / DeleteLink *)
Lemma add_link_WF s n1 n2 : WF s -> Pm (m_mf s) ->
  WF (add_link mf s n1 n2) /\ m_mf (add_link mf s n1 n2) = m_mf s /\
  (forall x y, In (x, y) (links_of (add_link mf s n1 n2)) <-> (x = n1 /\ y = n2) \/ In (x, y) (links_of s)) /\
  (forall k, In k (map fst (m_all (add_link mf s n1 n2))) <-> k = n1 \/ k = n2 \/ In k (map fst (m_all s))).
Proof.
  intros W HP. unfold add_link.
  destruct (get_role mf s n1) as [[s1 u] c1] eqn:E1. destruct (get_role mf s1 n2) as [[s2 r] c2] eqn:E2.
  destruct (get_role_WF _ _ _ _ _ W HP E1) as [W1 [H1 [M1 Mono1]]].
  assert (HP1 : Pm (m_mf s1)) by (rewrite M1; exact HP).
  destruct (get_role_WF _ _ _ _ _ W1 HP1 E2) as [W2 [H2 [M2 Mono2]]].
  pose proof (Mono2 _ _ H1) as H1'.
  split; [split|split; [|split]].
  - eapply add_role_WFs; eauto. apply (proj1 W2).
  - apply (WFm_shape s2 _ (proj2 W2)). apply shapeM_add_role.
  - cbn [set_heap m_mf]. congruence.
  - intros x y. rewrite (add_role_links _ _ _ _ _ x y (proj1 W2) H1' H2).
    rewrite (get_role_links _ _ _ _ _ x y (proj1 W1) E2), (get_role_links _ _ _ _ _ x y (proj1 W) E1). tauto.
  - intros k. cbn [set_heap m_all]. split.
    + intros H. apply in_map_iff in H as [[k' j] [Ek H]]. cbn [fst] in Ek. subst k'.
      apply (get_role_regd _ _ _ _ _ k j (proj1 W1) E2) in H. destruct H as [H|[_ [-> _]]]; [|auto].
      apply (get_role_regd _ _ _ _ _ k j (proj1 W) E1) in H. destruct H as [H|[_ [-> _]]]; [|auto].
      right. right. eapply In_keys; eauto.
    + intros [->|[->|H]].
      * eapply In_keys; exact H1'.
      * eapply In_keys; exact H2.
      * apply in_map_iff in H as [[k' j] [Ek H]]. cbn [fst] in Ek. subst k'. eapply In_keys. apply Mono2, Mono1. exact H.
Qed.

Lemma delete_link_WF s n1 n2 : WF s -> Pm (m_mf s) ->
  WF (delete_link mf s n1 n2) /\ m_mf (delete_link mf s n1 n2) = m_mf s /\
  (forall x y, In (x, y) (links_of (delete_link mf s n1 n2)) <-> ~ (x = n1 /\ y = n2) /\ In (x, y) (links_of s)) /\
  (forall k, In k (map fst (m_all (delete_link mf s n1 n2))) <-> k = n1 \/ k = n2 \/ In k (map fst (m_all s))).
Proof.
  intros W HP. unfold delete_link.
  destruct (get_role mf s n1) as [[s1 u] c1] eqn:E1. destruct (get_role mf s1 n2) as [[s2 r] c2] eqn:E2.
  destruct (get_role_WF _ _ _ _ _ W HP E1) as [W1 [H1 [M1 Mono1]]].
  assert (HP1 : Pm (m_mf s1)) by (rewrite M1; exact HP).
  destruct (get_role_WF _ _ _ _ _ W1 HP1 E2) as [W2 [H2 [M2 Mono2]]].
  pose proof (Mono2 _ _ H1) as H1'.
  split; [split|split; [|split]].
  - eapply remove_role_WFs; eauto. apply (proj1 W2).
  - apply (WFm_shape s2 _ (proj2 W2)). apply shapeM_remove_role.
  - cbn [set_heap m_mf]. congruence.
  - intros x y. rewrite (remove_role_links _ _ _ _ _ x y (proj1 W2) H1' H2).
    rewrite (get_role_links _ _ _ _ _ x y (proj1 W1) E2), (get_role_links _ _ _ _ _ x y (proj1 W) E1). tauto.
  - intros k. cbn [set_heap m_all]. split.
    + intros H. apply in_map_iff in H as [[k' j] [Ek H]]. cbn [fst] in Ek. subst k'.
      apply (get_role_regd _ _ _ _ _ k j (proj1 W1) E2) in H. destruct H as [H|[_ [-> _]]]; [|auto].
      apply (get_role_regd _ _ _ _ _ k j (proj1 W) E1) in H. destruct H as [H|[_ [-> _]]]; [|auto].
      right. right. eapply In_keys; eauto.
    + intros [->|[->|H]].
      * eapply In_keys; exact H1'.
      * eapply In_keys; exact H2.
      * apply in_map_iff in H as [[k' j] [Ek H]]. cbn [fst] in Ek. subst k'. eapply In_keys. apply Mono2, Mono1. exact H.
Qed.

(* a role created for one call and removed at its end *)
Lemma temp_role s name s1 i c s1' : WF s -> get_role mf s name = (s1, i, c) ->
  WF s1' -> Pm (m_mf s1') ->
  (forall k j, regd s1' k j <-> regd s1 k j) ->
  (forall x y, In (x, y) (links_of s1') <-> In (x, y) (links_of s1)) ->
  (c = true -> exists o, hget i (m_heap s1') = Some o /\ o_roles o = [] /\ o_users o = []) ->
  let s2 := if c then remove_role s1' name else s1' in
  WF s2 /\ m_mf s2 = m_mf s1' /\ (forall k j, regd s2 k j <-> regd s k j) /\
  (forall x y, In (x, y) (links_of s2) <-> In (x, y) (links_of s)) /\ shapeL (m_heap s1') (m_heap s2).
Proof.
  intros W E W1' HP Hreg Hlinks Hemp. cbv zeta.
  pose proof (fun x y => get_role_links _ _ _ _ _ x y (proj1 W) E) as GL.
  destruct (get_role_WFs _ _ _ _ _ (proj1 W) E) as [W1 [Hi [_ [_ [Hf _]]]]].
  destruct c.
  - destruct (Hemp eq_refl) as [o [G [Er Eu]]]. apply Hreg in Hi.
    split; [split; [eapply unreg_WFs; eauto; apply (proj1 W1')|apply HU; assumption]|].
    rewrite (remove_role_eq _ _ i) by (apply regd_lookup; [apply (proj1 W1')|exact Hi]).
    split; [reflexivity|]. split; [|split].
    + intros k j. unfold regd at 1. cbn [m_all]. rewrite del_In. fold (regd s1' k j). rewrite Hreg.
      rewrite (get_role_regd _ _ _ _ _ k j (proj1 W) E). split.
      * intros [N [H|[_ [-> _]]]]; [exact H|congruence].
      * intros H. split; [|auto]. intros ->.
        destruct (get_role_WFs _ _ _ _ _ (proj1 W) E) as [_ [_ [_ [_ [_ Ht]]]]]. destruct (Ht eq_refl) as [L _].
        apply lookup_None_notin in L. apply L. eapply In_keys; eauto.
    + intros x y. rewrite <- GL, <- Hlinks.
      rewrite <- (remove_role_eq _ _ i) by (apply regd_lookup; [apply (proj1 W1')|exact Hi]).
      eapply unreg_links; eauto. apply (proj1 W1').
    + cbn [m_heap]. apply shapeL_remove_matches.
  - rewrite (Hf eq_refl) in *. split; [exact W1'|]. split; [reflexivity|]. split; [exact Hreg|]. split; [exact Hlinks|].
    apply shape_refl. exact sameL_refl.
Qed.

(* ---------- hasLinkHelper = bounded walk over rangeRoles ---------- *)
Definition sedge (s : rmgr) (x y : string) : Prop :=
  exists i o, regd s x i /\ hget i (m_heap s) = Some o /\ In y (map fst (range_roles (m_heap s) o)).
Definition starget (s : rmgr) (t x : string) : Prop := x = t \/ (m_mf s = true /\ mf x t = true).
Inductive swalk (s : rmgr) : string -> string -> nat -> Prop :=
| sw0 x : swalk s x x 0
| swS x y z k : sedge s x y -> swalk s y z k -> swalk s x z (S k).
Definition good (s : rmgr) (fr : list (string * nat)) : Prop := forall k j, In (k, j) fr -> regd s k j.

Lemma obj_of_get h i o : hget i h = Some o -> obj_of h i = o.
Proof. intros G. unfold obj_of. rewrite G. reflexivity. Qed.

Lemma range_roles_regd s k i o y j : WF s -> regd s k i -> hget i (m_heap s) = Some o ->
  In (y, j) (range_roles (m_heap s) o) -> regd s y j.
Proof.
  intros [W Wm] H G HI. unfold range_roles in HI. rewrite !in_app_iff in HI. destruct HI as [HI|[HI|HI]].
  - apply (ws_roles _ W _ _ _ _ _ H G HI).
  - apply in_flat_map in HI as [[rk j1] [H1 H2]]. cbn [snd] in H2.
    destruct (ws_roles _ W _ _ _ _ _ H G H1) as [R1 _]. destruct (ws_obj _ W _ _ R1) as [o1 [G1 _]].
    rewrite (obj_of_get _ _ _ G1) in H2. destruct (Wm _ _ _ R1 G1) as [_ [_ [M _]]]. apply M in H2. tauto.
  - apply in_flat_map in HI as [[pk j1] [H1 H2]]. cbn [snd] in H2.
    destruct (Wm _ _ _ H G) as [_ [_ [_ M]]]. apply M in H1. destruct H1 as [R1 _].
    destruct (ws_obj _ W _ _ R1) as [o1 [G1 _]]. rewrite (obj_of_get _ _ _ G1) in H2.
    apply (ws_roles _ W _ _ _ _ _ R1 G1 H2).
Qed.

Lemma sedge_iff s k i o y : WFs s -> regd s k i -> hget i (m_heap s) = Some o ->
  (sedge s k y <-> In y (map fst (range_roles (m_heap s) o))).
Proof.
  intros W H G. split.
  - intros [i' [o' [H' [G' HI]]]]. assert (i' = i) by (eapply regd_fun; eauto). subst i'. congruence.
  - intros HI. exists i, o. auto.
Qed.

Lemma check_iff s t k :
  String.eqb t k || (m_mf s && rm_match mf (m_mf s) k t) = true <-> starget s t k.
Proof.
  unfold starget, rm_match. rewrite orb_true_iff, andb_true_iff, orb_true_iff, andb_true_iff, !String.eqb_eq.
  split.
  - intros [->|[Hm [->|[_ H]]]]; auto.
  - intros [->|[Hm H]]; auto.
Qed.

Lemma hl_scan_spec s t frontier next : WF s -> good s frontier -> good s next ->
  match hl_scan mf (m_heap s) (m_mf s) t frontier next with
  | None => exists x, In x (map fst frontier) /\ starget s t x
  | Some nx => (forall x, In x (map fst frontier) -> ~ starget s t x) /\ good s nx /\
               (forall y, In y (map fst nx) <-> In y (map fst next) \/ exists x, In x (map fst frontier) /\ sedge s x y)
  end.
Proof.
  intros W. revert next. induction frontier as [|[k j] fr IH]; intros next Gf Gn; cbn [hl_scan snd].
  - split; [intros x []|]. split; [exact Gn|]. intros y. cbn [map In]. split; [auto|intros [H|[x [[] _]]]; exact H].
  - assert (Hk : regd s k j) by (apply Gf; left; reflexivity).
    destruct (ws_obj _ (proj1 W) _ _ Hk) as [o [G N]]. rewrite (obj_of_get _ _ _ G), N.
    destruct (String.eqb t k || (m_mf s && rm_match mf (m_mf s) k t)) eqn:C.
    + apply check_iff in C. exists k. split; [left; reflexivity|exact C].
    + assert (C' : ~ starget s t k) by (intros H; apply check_iff in H; congruence).
      set (next' := fold_left (fun acc q => mput (fst q) (snd q) acc) (range_roles (m_heap s) o) next).
      assert (Gn' : good s next').
      { intros y v H. apply fold_mput_In in H as [H|H]; [apply Gn; exact H|]. eapply range_roles_regd; eauto. }
      assert (Gf' : good s fr) by (intros y v H; apply Gf; right; exact H).
      specialize (IH next' Gf' Gn'). destruct (hl_scan mf (m_heap s) (m_mf s) t fr next') as [nx|].
      * destruct IH as [I1 [I2 I3]]. split; [|split; [exact I2|]].
        -- intros x [<-|H]; [exact C'|apply I1; exact H].
        -- intros y. rewrite I3. unfold next'. rewrite fold_mput_keys.
           rewrite <- (sedge_iff _ _ _ _ y (proj1 W) Hk G). cbn [map fst In]. split.
           ++ intros [[H|H]|[x [H1 H2]]]; [auto|right; exists k; auto|right; exists x; auto].
           ++ intros [H|[x [[<-|H1] H2]]]; [auto|auto|right; exists x; auto].
      * destruct IH as [x [H1 H2]]. exists x. split; [right; exact H1|exact H2].
Qed.

Lemma hl_helper_spec s fuel t frontier : WF s -> good s frontier ->
  (hl_helper mf (m_heap s) (m_mf s) fuel t frontier = true <->
   exists x y k, In x (map fst frontier) /\ k < fuel /\ swalk s x y k /\ starget s t y).
Proof.
  intros W. revert frontier. induction fuel as [|f IH]; intros frontier Gf; cbn [hl_helper].
  - split; [discriminate|intros [x [y [k [_ [H _]]]]]; lia].
  - destruct frontier as [|p fr].
    + split; [discriminate|intros [x [y [k [[] _]]]]].
    + pose proof (hl_scan_spec s t (p :: fr) [] W Gf) as HS.
      assert (G0 : good s []) by (intros k j []). specialize (HS G0).
      destruct (hl_scan mf (m_heap s) (m_mf s) t (p :: fr) []) as [nx|].
      * destruct HS as [S1 [S2 S3]]. rewrite (IH nx S2). split.
        -- intros [x' [y [k [H1 [H2 [H3 H4]]]]]]. apply S3 in H1 as [[]|[x [Hx He]]].
           exists x, y, (S k). split; [exact Hx|split; [lia|split; [econstructor; eauto|exact H4]]].
        -- intros [x [y [k [H1 [H2 [H3 H4]]]]]]. inversion H3 as [x0|x0 z y0 k' He Hw]; subst.
           ++ exfalso. apply (S1 _ H1 H4).
           ++ exists z, y, k'. split; [apply S3; right; exists x; auto|split; [lia|auto]].
      * split; [intros _|reflexivity]. destruct HS as [x [H1 H2]]. exists x, x, 0.
        split; [exact H1|split; [lia|split; [constructor|exact H2]]].
Qed.

(* two well-formed states with the same registered names and the same edges walk alike *)
Lemma swalk_transport s s' x y k : (forall a b, sedge s a b -> sedge s' a b) -> swalk s x y k -> swalk s' x y k.
Proof. intros H Wk. induction Wk; [constructor|]. econstructor; eauto. Qed.

(* ---------- HasLink ---------- *)
(* the state in which hasLinkHelper runs: both names registered *)
Definition hl_state (s : rmgr) (n1 n2 : string) : rmgr :=
  fst (fst (get_role mf (fst (fst (get_role mf s n1))) n2)).

Lemma has_link_WF n s n1 n2 : WF s -> Pm (m_mf s) ->
  WF (fst (has_link mf n s n1 n2)) /\ m_mf (fst (has_link mf n s n1 n2)) = m_mf s /\
  (forall k j, regd (fst (has_link mf n s n1 n2)) k j <-> regd s k j) /\
  (forall x y, In (x, y) (links_of (fst (has_link mf n s n1 n2))) <-> In (x, y) (links_of s)).
Proof.
  intros W HP. unfold has_link.
  destruct (String.eqb n1 n2 || (m_mf s && rm_match mf (m_mf s) n1 n2)); cbn [fst];
    [split; [exact W|split; [reflexivity|split; intros; tauto]]|].
  destruct (get_role mf s n1) as [[s1 u] uc] eqn:E1. destruct (get_role mf s1 n2) as [[s2 r] rc] eqn:E2. cbn [fst].
  destruct (get_role_WF _ _ _ _ _ W HP E1) as [W1 [H1 [M1 Mono1]]].
  assert (HP1 : Pm (m_mf s1)) by (rewrite M1; exact HP).
  destruct (get_role_WF _ _ _ _ _ W1 HP1 E2) as [W2 [H2 [M2 Mono2]]].
  assert (HP2 : Pm (m_mf s2)) by (rewrite M2; exact HP1).
  rewrite (name_of_regd _ _ _ (proj1 W2) H2).
  assert (Hemp2 : rc = true -> exists o, hget r (m_heap s2) = Some o /\ o_roles o = [] /\ o_users o = []).
  { intros ->. eapply get_role_created_empty; [apply (proj1 W1)|exact E2]. }
  destruct (temp_role s1 n2 s2 r rc s2 W1 E2 W2 HP2 (fun k j => iff_refl _) (fun x y => iff_refl _) Hemp2)
    as [W3 [M3 [R3 [L3 S3]]]].
  set (s3 := if rc then remove_role s2 n2 else s2) in *.
  assert (H13 : regd s3 n1 u) by (apply R3; exact H1).
  rewrite (name_of_regd _ _ _ (proj1 W3) H13).
  assert (HP3 : Pm (m_mf s3)) by (rewrite M3; exact HP2).
  assert (Hemp3 : uc = true -> exists o, hget u (m_heap s3) = Some o /\ o_roles o = [] /\ o_users o = []).
  { intros ->. destruct (get_role_created_empty _ _ _ _ (proj1 W) E1) as [o1 [G1 [Er Eu]]].
    destruct (get_role_keeps _ _ _ _ _ _ _ (proj1 W1) E2 G1) as [o2 [G2 [_ [Er2 Eu2]]]].
    destruct (shape_get_fwd _ _ _ _ _ S3 G2) as [o3 [G3 [_ [Er3 Eu3]]]].
    exists o3. split; [exact G3|split; congruence]. }
  destruct (temp_role s n1 s1 u uc s3 W E1 W3 HP3 R3 L3 Hemp3) as [W4 [M4 [R4 [L4 _]]]].
  split; [exact W4|]. split; [congruence|]. split; assumption.
Qed.

Lemma has_link_value n s n1 n2 : WF s -> Pm (m_mf s) ->
  (snd (has_link mf n s n1 n2) = true <->
   exists y k, k <= n /\ swalk (hl_state s n1 n2) n1 y k /\ starget s n2 y).
Proof.
  intros W HP. unfold has_link, hl_state.
  destruct (String.eqb n1 n2 || (m_mf s && rm_match mf (m_mf s) n1 n2)) eqn:C; cbn [snd].
  - split; [intros _|reflexivity]. exists n1, 0. split; [lia|split; [constructor|]].
    unfold starget. apply orb_true_iff in C as [C|C]; [apply String.eqb_eq in C; auto|].
    apply andb_true_iff in C as [Hm C]. unfold rm_match in C. apply orb_true_iff in C as [C|C].
    + apply String.eqb_eq in C. auto.
    + apply andb_true_iff in C as [_ C]. auto.
  - destruct (get_role mf s n1) as [[s1 u] uc] eqn:E1. cbn [fst]. destruct (get_role mf s1 n2) as [[s2 r] rc] eqn:E2. cbn [fst snd].
    destruct (get_role_WF _ _ _ _ _ W HP E1) as [W1 [H1 [M1 Mono1]]].
    assert (HP1 : Pm (m_mf s1)) by (rewrite M1; exact HP).
    destruct (get_role_WF _ _ _ _ _ W1 HP1 E2) as [W2 [H2 [M2 Mono2]]].
    pose proof (Mono2 _ _ H1) as H1'.
    rewrite (name_of_regd _ _ _ (proj1 W2) H2), (name_of_regd _ _ _ (proj1 W2) H1').
    rewrite (hl_helper_spec s2 (S n) n2 [(n1, u)] W2).
    + cbn [map fst In]. unfold starget. rewrite M2, M1. split.
      * intros [x [y [k [[<-|[]] [Hk [Hw Ht]]]]]]. exists y, k. split; [lia|auto].
      * intros [y [k [Hk [Hw Ht]]]]. exists n1, y, k. split; [auto|split; [lia|auto]].
    + intros k j [H|[]]. inversion H. subst. exact H1'.
Qed.

(* ---------- GetRoles / GetUsers ---------- *)
Lemma get_roles_WF s name : WF s -> Pm (m_mf s) ->
  WF (fst (get_roles mf s name)) /\ m_mf (fst (get_roles mf s name)) = m_mf s /\
  (forall k j, regd (fst (get_roles mf s name)) k j <-> regd s k j) /\
  (forall x y, In (x, y) (links_of (fst (get_roles mf s name))) <-> In (x, y) (links_of s)).
Proof.
  intros W HP. unfold get_roles. destruct (get_role mf s name) as [[s1 u] c] eqn:E1. cbn [fst].
  destruct (get_role_WF _ _ _ _ _ W HP E1) as [W1 [H1 [M1 Mono1]]].
  assert (HP1 : Pm (m_mf s1)) by (rewrite M1; exact HP).
  rewrite (name_of_regd _ _ _ (proj1 W1) H1).
  assert (Hemp : c = true -> exists o, hget u (m_heap s1) = Some o /\ o_roles o = [] /\ o_users o = []).
  { intros ->. eapply get_role_created_empty; [apply (proj1 W)|exact E1]. }
  destruct (temp_role s name s1 u c s1 W E1 W1 HP1 (fun k j => iff_refl _) (fun x y => iff_refl _) Hemp)
    as [W3 [M3 [R3 [L3 _]]]].
  split; [exact W3|]. split; [congruence|]. split; assumption.
Qed.
Lemma get_users_WF s name : WF s -> Pm (m_mf s) ->
  WF (fst (get_users mf s name)) /\ m_mf (fst (get_users mf s name)) = m_mf s /\
  (forall k j, regd (fst (get_users mf s name)) k j <-> regd s k j) /\
  (forall x y, In (x, y) (links_of (fst (get_users mf s name))) <-> In (x, y) (links_of s)).
Proof.
  intros W HP. unfold get_users. destruct (get_role mf s name) as [[s1 u] c] eqn:E1. cbn [fst].
  destruct (get_role_WF _ _ _ _ _ W HP E1) as [W1 [H1 [M1 Mono1]]].
  assert (HP1 : Pm (m_mf s1)) by (rewrite M1; exact HP).
  rewrite (name_of_regd _ _ _ (proj1 W1) H1).
  assert (Hemp : c = true -> exists o, hget u (m_heap s1) = Some o /\ o_roles o = [] /\ o_users o = []).
  { intros ->. eapply get_role_created_empty; [apply (proj1 W)|exact E1]. }
  destruct (temp_role s name s1 u c s1 W E1 W1 HP1 (fun k j => iff_refl _) (fun x y => iff_refl _) Hemp)
    as [W3 [M3 [R3 [L3 _]]]].
  split; [exact W3|]. split; [congruence|]. split; assumption.
Qed.
End Generic.

(* ================= (b) managers WITHOUT matching function refine Roles.v ================= *)
Definition NoMF (s : rmgr) : Prop := WF s /\ m_mf s = false.
Notation Pnomf := (fun b : bool => b = false).

Lemma NoMF_new : NoMF (new_rm false).
Proof. split; [apply WF_new|reflexivity]. Qed.

Lemma flat_map_nil {X Y} (f : X -> list Y) l : (forall x, In x l -> f x = []) -> flat_map f l = [].
Proof.
  induction l as [|a t IH]; cbn [flat_map]; [reflexivity|]. intros H. rewrite (H a) by (left; reflexivity).
  apply IH. intros x Hx. apply H. right. exact Hx.
Qed.

Lemma range_roles_nomf s k i o : NoMF s -> regd s k i -> hget i (m_heap s) = Some o ->
  range_roles (m_heap s) o = o_roles o.
Proof.
  intros [[W Wm] Hm] H G. pose proof (proj1 (WFm_nomf s Hm) Wm) as E. unfold range_roles.
  destruct (E _ _ _ H G) as [_ E2]. rewrite E2. cbn [flat_map]. rewrite app_nil_r.
  rewrite flat_map_nil; [apply app_nil_r|]. intros [rk j] HI. cbn [snd].
  destruct (ws_roles _ W _ _ _ _ _ H G HI) as [R _]. destruct (ws_obj _ W _ _ R) as [o1 [G1 _]].
  rewrite (obj_of_get _ _ _ G1). apply (E _ _ _ R G1).
Qed.
Lemma range_users_nomf s k i o : NoMF s -> regd s k i -> hget i (m_heap s) = Some o ->
  range_users (m_heap s) o = o_users o.
Proof.
  intros [[W Wm] Hm] H G. pose proof (proj1 (WFm_nomf s Hm) Wm) as E. unfold range_users.
  destruct (E _ _ _ H G) as [_ E2]. rewrite E2. cbn [flat_map]. rewrite app_nil_r.
  rewrite flat_map_nil; [apply app_nil_r|]. intros [rk j] HI. cbn [snd].
  destruct (ws_users _ W _ _ _ _ _ H G HI) as [R _]. destruct (ws_obj _ W _ _ R) as [o1 [G1 _]].
  rewrite (obj_of_get _ _ _ G1). apply (E _ _ _ R G1).
Qed.

Lemma sedge_nomf s x y : NoMF s -> (sedge s x y <-> In (x, y) (links_of s)).
Proof.
  intros N. rewrite (links_of_In _ _ _ (proj1 (proj1 N))). split.
  - intros [i [o [H [G HI]]]]. rewrite (range_roles_nomf _ _ _ _ N H G) in HI. eauto.
  - intros [i [o [H [G HI]]]]. exists i, o. rewrite (range_roles_nomf _ _ _ _ N H G). auto.
Qed.

Lemma abs_rm_In d s x y d' : In (x, y, d') (abs_rm d s) <-> d' = d /\ In (x, y) (links_of s).
Proof.
  unfold abs_rm. rewrite in_map_iff. split.
  - intros [[a b] [E H]]. cbn [fst snd] in E. inversion E. subst. auto.
  - intros [-> H]. exists (x, y). auto.
Qed.

Lemma swalk_nomf d s x y k : NoMF s -> (swalk s x y k <-> walk (abs_rm d s) d x y k).
Proof.
  intros N. split; intros Wk; induction Wk; try constructor.
  - econstructor; [|eassumption]. apply abs_rm_In. split; [reflexivity|]. apply sedge_nomf; assumption.
  - econstructor; [|eassumption]. apply sedge_nomf; [assumption|]. apply abs_rm_In in H. tauto.
Qed.

Lemma bool_eq_iff (a b : bool) : (a = true <-> b = true) -> a = b.
Proof. destruct a, b; intuition congruence. Qed.

Lemma hl_state_facts s n1 n2 : NoMF s ->
  NoMF (hl_state s n1 n2) /\ (forall x y, In (x, y) (links_of (hl_state s n1 n2)) <-> In (x, y) (links_of s)).
Proof.
  intros [W Hm]. unfold hl_state.
  destruct (get_role mf s n1) as [[s1 u] uc] eqn:E1. cbn [fst]. destruct (get_role mf s1 n2) as [[s2 r] rc] eqn:E2. cbn [fst].
  destruct (get_role_WF Pnomf GRM_nomf _ _ _ _ _ W Hm E1) as [W1 [H1 [M1 _]]].
  assert (Hm1 : m_mf s1 = false) by congruence.
  destruct (get_role_WF Pnomf GRM_nomf _ _ _ _ _ W1 Hm1 E2) as [W2 [H2 [M2 _]]].
  split; [split; [exact W2|congruence]|]. intros x y.
  rewrite (get_role_links _ _ _ _ _ x y (proj1 W1) E2). apply (get_role_links _ _ _ _ _ x y (proj1 W) E1).
Qed.

(* HasLink of the structure = has_link of the link set *)
Theorem has_link_refines n d s u r : NoMF s ->
  snd (has_link mf n s u r) = Roles.has_link_n n (abs_rm d s) u r d.
Proof.
  intros N. apply bool_eq_iff. rewrite (has_link_value Pnomf GRM_nomf n s u r (proj1 N) (proj2 N)).
  rewrite has_link_iff_walk. destruct (hl_state_facts s u r N) as [N2 L2].
  assert (LE : links_equiv (abs_rm d (hl_state s u r)) (abs_rm d s)).
  { intros [[a b] c]. rewrite !abs_rm_In, L2. tauto. }
  split.
  - intros [y [k [Hk [Hw [->|[Hm _]]]]]]; [|destruct N; congruence]. exists k. split; [exact Hk|].
    eapply walk_equiv; [exact LE|]. apply swalk_nomf; assumption.
  - intros [k [Hk Hw]]. exists r, k. split; [exact Hk|split; [|left; reflexivity]].
    apply (swalk_nomf d); [assumption|]. eapply walk_equiv; [apply links_equiv_sym; exact LE|exact Hw].
Qed.

(* util.RemoveDuplicateElement *)
Lemma nub_acc_In seen l x : In x (nub_acc seen l) <-> In x l /\ ~ In x seen.
Proof.
  revert seen. induction l as [|a t IH]; intros seen; cbn [nub_acc In]; [tauto|].
  destruct (mem_str a seen) eqn:M.
  - apply mem_str_In in M. rewrite IH. split; [tauto|]. intros [[->|H] N]; [contradiction|tauto].
  - assert (M' : ~ In a seen) by (intros H; apply mem_str_In in H; congruence).
    cbn [In]. rewrite IH. cbn [In]. split.
    + intros [<-|[H N]]; [tauto|tauto].
    + intros [[<-|H] N]; [tauto|]. destruct (string_dec a x) as [->|D]; [tauto|]. right. split; [exact H|tauto].
Qed.
Lemma nub_acc_NoDup seen l : NoDup (nub_acc seen l).
Proof.
  revert seen. induction l as [|a t IH]; intros seen; cbn [nub_acc]; [constructor|].
  destruct (mem_str a seen); [apply IH|]. constructor; [|apply IH].
  rewrite nub_acc_In. cbn [In]. tauto.
Qed.
Lemma nub_In l x : In x (nub l) <-> In x l.
Proof. unfold nub. rewrite nub_acc_In. cbn [In]. tauto. Qed.
Lemma nub_NoDup l : NoDup (nub l).
Proof. apply nub_acc_NoDup. Qed.

Theorem get_roles_refines d s u : NoMF s ->
  NoDup (snd (get_roles mf s u)) /\
  forall x, In x (snd (get_roles mf s u)) <-> In x (Roles.get_roles (abs_rm d s) u d).
Proof.
  intros [W Hm]. unfold get_roles. destruct (get_role mf s u) as [[s1 i] c] eqn:E1. cbn [snd].
  destruct (get_role_WF Pnomf GRM_nomf _ _ _ _ _ W Hm E1) as [W1 [H1 [M1 _]]].
  assert (N1 : NoMF s1) by (split; [exact W1|congruence]).
  destruct (ws_obj _ (proj1 W1) _ _ H1) as [o [G _]]. rewrite (obj_of_get _ _ _ G).
  unfold role_get_roles. rewrite (range_roles_nomf _ _ _ _ N1 H1 G). split; [apply nub_NoDup|].
  intros x. rewrite nub_In, get_roles_spec, abs_rm_In.
  rewrite <- (get_role_links _ _ _ _ _ u x (proj1 W) E1), (links_of_In _ _ _ (proj1 W1)). split.
  - intros HI. split; [reflexivity|]. exists i, o. auto.
  - intros [_ [i' [o' [H' [G' HI]]]]]. assert (i' = i) by (eapply regd_fun; eauto; apply (proj1 W1)). subst i'. congruence.
Qed.

Theorem get_users_refines d s u : NoMF s ->
  NoDup (snd (get_users mf s u)) /\
  forall x, In x (snd (get_users mf s u)) <-> In x (Roles.get_users (abs_rm d s) u d).
Proof.
  intros [W Hm]. unfold get_users. destruct (get_role mf s u) as [[s1 i] c] eqn:E1. cbn [snd].
  destruct (get_role_WF Pnomf GRM_nomf _ _ _ _ _ W Hm E1) as [W1 [H1 [M1 _]]].
  assert (N1 : NoMF s1) by (split; [exact W1|congruence]).
  destruct (ws_obj _ (proj1 W1) _ _ H1) as [o [G _]]. rewrite (obj_of_get _ _ _ G).
  unfold role_get_users. rewrite (range_users_nomf _ _ _ _ N1 H1 G).
  split; [apply (ws_rnodup _ (proj1 W1) _ _ _ H1 G)|].
  intros x. rewrite get_users_spec, abs_rm_In.
  rewrite <- (get_role_links _ _ _ _ _ x u (proj1 W) E1), (links_of_In _ _ _ (proj1 W1)). split.
  - intros HI. split; [reflexivity|]. apply in_map_iff in HI as [[x' j] [Ex HI]]. cbn [fst] in Ex. subst x'.
    destruct (ws_users _ (proj1 W1) _ _ _ _ _ H1 G HI) as [R [oj [Gj Hj]]]. exists j, oj.
    split; [exact R|split; [exact Gj|eapply In_keys; eauto]].
  - intros [_ [j [oj [R [Gj HI]]]]]. apply in_map_iff in HI as [[u' i'] [Eu HI]]. cbn [fst] in Eu. subst u'.
    destruct (ws_roles _ (proj1 W1) _ _ _ _ _ R Gj HI) as [R' [o' [G' H']]].
    assert (i' = i) by (eapply regd_fun; eauto; apply (proj1 W1)). subst i'.
    rewrite G in G'. inversion G'. subst o'. eapply In_keys; eauto.
Qed.

(* every operation commutes with the abstraction and answers like the abstract model *)
Lemma rstep_refines n d s ls op : NoMF s -> links_equiv (abs_rm d s) ls -> plain_rop op ->
  NoMF (fst (rstep mf n s op)) /\
  links_equiv (abs_rm d (fst (rstep mf n s op))) (fst (astep n d ls op)) /\
  res_agree (snd (rstep mf n s op)) (snd (astep n d ls op)).
Proof.
  intros N LE HP. destruct N as [W Hm]. destruct op as [u r|u r|u r|u|u| |]; cbn [rstep astep fst snd plain_rop] in *.
  - destruct (add_link_WF Pnomf GRM_nomf s u r W Hm) as [W' [M' [L' _]]].
    split; [split; [exact W'|congruence]|]. split; [|exact I].
    intros [[a b] c]. rewrite abs_rm_In, L', add_link_In, <- (LE (a, b, c)), abs_rm_In. split.
    + intros [-> [[-> ->]|H]]; auto.
    + intros [H|[-> H]]; [inversion H; auto|auto].
  - destruct (delete_link_WF Pnomf GRM_nomf s u r W Hm) as [W' [M' [L' _]]].
    split; [split; [exact W'|congruence]|]. split; [|exact I].
    intros [[a b] c]. rewrite abs_rm_In, L', del_link_In, <- (LE (a, b, c)), abs_rm_In. split.
    + intros [-> [Hn H]]. split; [|auto]. intros E. inversion E. subst. tauto.
    + intros [Hn [-> H]]. split; [reflexivity|]. split; [|exact H]. intros [-> ->]. apply Hn. reflexivity.
  - destruct (has_link mf n s u r) as [s' b] eqn:E. cbn [fst snd].
    destruct (has_link_WF Pnomf GRM_nomf URM_nomf n s u r W Hm) as [W' [M' [_ L']]]. rewrite E in *. cbn [fst] in *.
    split; [split; [exact W'|congruence]|]. split.
    + intros [[a b'] c]. rewrite abs_rm_In, L', <- (LE (a, b', c)), abs_rm_In. tauto.
    + cbn [res_agree]. change b with (snd (s', b)). rewrite <- E.
      rewrite (has_link_refines n d s u r (conj W Hm)). apply has_link_equiv. exact LE.
  - destruct (get_roles mf s u) as [s' l] eqn:E. cbn [fst snd].
    destruct (get_roles_WF Pnomf GRM_nomf URM_nomf s u W Hm) as [W' [M' [_ L']]]. rewrite E in *. cbn [fst] in *.
    split; [split; [exact W'|congruence]|]. split.
    + intros [[a b'] c]. rewrite abs_rm_In, L', <- (LE (a, b', c)), abs_rm_In. tauto.
    + cbn [res_agree]. destruct (get_roles_refines d s u (conj W Hm)) as [ND HI]. rewrite E in *. cbn [snd] in *.
      split; [exact ND|]. split; [apply dedup_NoDup|]. intros x. rewrite HI. apply get_roles_equiv. exact LE.
  - destruct (get_users mf s u) as [s' l] eqn:E. cbn [fst snd].
    destruct (get_users_WF Pnomf GRM_nomf URM_nomf s u W Hm) as [W' [M' [_ L']]]. rewrite E in *. cbn [fst] in *.
    split; [split; [exact W'|congruence]|]. split.
    + intros [[a b'] c]. rewrite abs_rm_In, L', <- (LE (a, b', c)), abs_rm_In. tauto.
    + cbn [res_agree]. destruct (get_users_refines d s u (conj W Hm)) as [ND HI]. rewrite E in *. cbn [snd] in *.
      split; [exact ND|]. split; [apply dedup_NoDup|]. intros x. rewrite HI. apply get_users_equiv. exact LE.
  - split; [split; [apply WF_clear|exact Hm]|]. split; [|exact I]. intros l. cbn. tauto.
  - destruct HP.
Qed.

(* (a) + (b) over all histories *)
Theorem rrun_refines n d ops : forall s ls, NoMF s -> links_equiv (abs_rm d s) ls -> Forall plain_rop ops ->
  NoMF (rrun mf n s ops) /\ links_equiv (abs_rm d (rrun mf n s ops)) (arun n d ls ops).
Proof.
  induction ops as [|op t IH]; intros s ls N LE HF; cbn [rrun arun fold_left]; [auto|].
  inversion HF as [|x l Hop Ht]. subst.
  destruct (rstep_refines n d s ls op N LE Hop) as [N' [LE' _]]. apply (IH _ _ N' LE' Ht).
Qed.

Theorem rrun_answers n d ops op : Forall plain_rop ops -> plain_rop op ->
  res_agree (snd (rstep mf n (rrun mf n (new_rm false) ops) op)) (snd (astep n d (arun n d [] ops) op)).
Proof.
  intros HF Hop.
  destruct (rrun_refines n d ops (new_rm false) [] NoMF_new (links_equiv_refl _) HF) as [N LE].
  apply (rstep_refines n d _ _ op N LE Hop).
Qed.

(* the theorems of RolesProofs.v about the link set transfer to the structure, e.g. HasLink after
   any history = reachability within n edges among the links the history leaves listed *)
Theorem structure_has_link_bounded_reachability n d ops u r : Forall plain_rop ops ->
  (snd (has_link mf n (rrun mf n (new_rm false) ops) u r) = true <->
   exists k, k <= n /\ walk (arun n d [] ops) d u r k).
Proof.
  intros HF. destruct (rrun_refines n d ops (new_rm false) [] NoMF_new (links_equiv_refl _) HF) as [N LE].
  rewrite (has_link_refines n d _ u r N), (has_link_equiv n _ _ u r d LE). apply has_link_iff_walk.
Qed.

Theorem rrun_WF n ops : Forall plain_rop ops -> WF (rrun mf n (new_rm false) ops).
Proof.
  intros HF. apply (proj1 (proj1 (rrun_refines n EmptyString ops (new_rm false) [] NoMF_new (links_equiv_refl _) HF))).
Qed.

Section DomNoMF.
Variable dmf : string -> string -> bool.
(* ================= DomainManager without matching functions ================= *)
Record DInv (dm : dmgr) : Prop := mkDInv {
  di_mf : d_mf dm = false;
  di_dmf : d_dmf dm = false;
  di_nodup : NoDup (map fst (d_rms dm));
  di_rm : forall d rm, In (d, rm) (d_rms dm) -> NoMF rm }.

Lemma DInv_new : DInv new_dm.
Proof. constructor; cbn; auto; [constructor|tauto]. Qed.

Lemma abs_dm_In dm x y d : In (x, y, d) (abs_dm dm) <-> exists rm, In (d, rm) (d_rms dm) /\ In (x, y) (links_of rm).
Proof.
  unfold abs_dm. rewrite in_flat_map. split.
  - intros [[d' rm] [H HI]]. cbn [fst snd] in HI. apply abs_rm_In in HI as [-> HI]. eauto.
  - intros [rm [H HI]]. exists (d, rm). split; [exact H|]. cbn [fst snd]. apply abs_rm_In. auto.
Qed.

Lemma DInv_upd dm d rm : DInv dm -> NoMF rm -> DInv (set_rms dm (mput d rm (d_rms dm))).
Proof.
  intros I N. constructor; cbn [set_rms d_mf d_dmf d_rms]; try apply I.
  - apply mput_nodup. apply I.
  - intros d' rm' H. apply mput_In in H; [|apply I]. destruct H as [[_ ->]|[_ H]]; [exact N|eapply di_rm; eauto].
Qed.

Lemma abs_upd dm d rm x y d' : DInv dm ->
  (In (x, y, d') (abs_dm (set_rms dm (mput d rm (d_rms dm)))) <->
   (d' = d /\ In (x, y) (links_of rm)) \/ (d' <> d /\ In (x, y, d') (abs_dm dm))).
Proof.
  intros I. rewrite !abs_dm_In. cbn [set_rms d_rms]. split.
  - intros [rm' [H HI]]. apply mput_In in H; [|apply I]. destruct H as [[-> ->]|[Nd H]]; [auto|right; eauto].
  - intros [[-> HI]|[Nd [rm' [H HI]]]].
    + exists rm. split; [|exact HI]. apply mput_In; [apply I|]. auto.
    + exists rm'. split; [|exact HI]. apply mput_In; [apply I|]. auto.
Qed.

Lemma links_new b : links_of (new_rm b) = [].
Proof. reflexivity. Qed.

Lemma get_rm_nomf dm d store : DInv dm ->
  get_rm mf dmf dm d store =
  match lookup d (d_rms dm) with
  | Some rm => (dm, rm)
  | None => ((if store then set_rms dm (mput d (new_rm false) (mput d (new_rm false) (d_rms dm))) else dm), new_rm false)
  end.
Proof.
  intros I. unfold get_rm. rewrite (di_mf _ I), (di_dmf _ I). destruct (lookup d (d_rms dm)); [reflexivity|].
  destruct store; reflexivity.
Qed.

Lemma get_rm_spec dm d store dm1 rm : DInv dm -> get_rm mf dmf dm d store = (dm1, rm) ->
  DInv dm1 /\ NoMF rm /\
  (forall x y d', In (x, y, d') (abs_dm dm1) <-> In (x, y, d') (abs_dm dm)) /\
  (forall x y, In (x, y) (links_of rm) <-> In (x, y, d) (abs_dm dm)) /\
  (store = true -> In (d, rm) (d_rms dm1)) /\ (store = false -> dm1 = dm).
Proof.
  intros I E. rewrite (get_rm_nomf _ _ _ I) in E. destruct (lookup d (d_rms dm)) as [rm0|] eqn:L.
  - inversion E. subst. apply lookup_In in L. split; [exact I|]. split; [eapply di_rm; eauto|].
    split; [tauto|]. split; [|auto]. intros x y. rewrite abs_dm_In. split; [eauto|].
    intros [rm' [H HI]]. assert (rm' = rm) by (eapply In_fun; eauto; apply I). subst. exact HI.
  - assert (Hnone : forall x y, ~ In (x, y, d) (abs_dm dm)).
    { intros x y H. apply abs_dm_In in H as [rm' [H _]]. apply lookup_None_notin in L. apply L. eapply In_keys; eauto. }
    inversion E. subst rm. split; [|split; [exact NoMF_new|]].
    + destruct store; [|subst; exact I]. subst dm1. pose proof (DInv_upd dm d (new_rm false) I NoMF_new) as I1.
      apply (DInv_upd _ d (new_rm false) I1 NoMF_new).
    + split; [|split; [|split]].
      * intros x y d'. destruct store; [|subst; tauto]. subst dm1.
        pose proof (DInv_upd dm d (new_rm false) I NoMF_new) as I1.
        change (mput d (new_rm false) (mput d (new_rm false) (d_rms dm)))
          with (mput d (new_rm false) (d_rms (set_rms dm (mput d (new_rm false) (d_rms dm))))).
        change (set_rms dm (mput d (new_rm false) (d_rms (set_rms dm (mput d (new_rm false) (d_rms dm))))))
          with (set_rms (set_rms dm (mput d (new_rm false) (d_rms dm))) (mput d (new_rm false) (d_rms (set_rms dm (mput d (new_rm false) (d_rms dm)))))).
        rewrite (abs_upd _ d (new_rm false) x y d' I1), (abs_upd _ d (new_rm false) x y d' I). rewrite links_new. cbn [In].
        split; [intros [[_ []]|[Nd [[_ []]|[_ H]]]]; exact H|].
        intros H. right. destruct (string_dec d' d) as [->|Nd]; [exfalso; eapply Hnone; eauto|]. auto.
      * intros x y. rewrite links_new. cbn [In]. split; [tauto|apply Hnone].
      * intros ->. subst dm1. cbn [set_rms d_rms]. apply mput_In; [apply mput_nodup; apply I|]. auto.
      * intros ->. auto.
Qed.

Lemma range_affected_nomf dm d fn : d_dmf dm = false -> range_affected dmf dm d fn = dm.
Proof. intros H. unfold range_affected. rewrite H. reflexivity. Qed.

Lemma dm_add_link_refines dm u r d : DInv dm ->
  DInv (dm_add_link mf dmf dm u r d) /\
  links_equiv (abs_dm (dm_add_link mf dmf dm u r d)) (Roles.add_link (u, r, d) (abs_dm dm)).
Proof.
  intros I. unfold dm_add_link. destruct (get_rm mf dmf dm d true) as [dm1 rm] eqn:E.
  destruct (get_rm_spec _ _ _ _ _ I E) as [I1 [N [A1 [A2 _]]]].
  destruct (add_link_WF Pnomf GRM_nomf rm u r (proj1 N) (proj2 N)) as [W' [M' [L' _]]].
  rewrite range_affected_nomf by (cbn [set_rms d_dmf]; apply I1).
  split; [apply DInv_upd; [exact I1|split; [exact W'|rewrite M'; apply N]]|].
  intros [[x y] d']. rewrite (abs_upd _ _ _ _ _ _ I1), add_link_In, L', A1, A2. split.
  - intros [[-> [[-> ->]|H]]|[Nd H]]; auto.
  - intros [H|H]; [inversion H; subst; left; auto|]. destruct (string_dec d' d) as [->|Nd]; [left|right]; auto.
Qed.

Lemma dm_delete_link_refines dm u r d : DInv dm ->
  DInv (dm_delete_link mf dmf dm u r d) /\
  links_equiv (abs_dm (dm_delete_link mf dmf dm u r d)) (Roles.del_link (u, r, d) (abs_dm dm)).
Proof.
  intros I. unfold dm_delete_link. destruct (get_rm mf dmf dm d true) as [dm1 rm] eqn:E.
  destruct (get_rm_spec _ _ _ _ _ I E) as [I1 [N [A1 [A2 _]]]].
  destruct (delete_link_WF Pnomf GRM_nomf rm u r (proj1 N) (proj2 N)) as [W' [M' [L' _]]].
  rewrite range_affected_nomf by (cbn [set_rms d_dmf]; apply I1).
  split; [apply DInv_upd; [exact I1|split; [exact W'|rewrite M'; apply N]]|].
  intros [[x y] d']. rewrite (abs_upd _ _ _ _ _ _ I1), del_link_In, L', A1, A2. split.
  - intros [[-> [Hn H]]|[Nd H]]; (split; [|exact H]); intros Eq; inversion Eq; subst; tauto.
  - intros [Hn H]. destruct (string_dec d' d) as [->|Nd]; [left|right]; auto.
    split; [reflexivity|]. split; [|exact H]. intros [-> ->]. apply Hn. reflexivity.
Qed.

(* a query: the answer is that of the manager holding exactly the links of the domain asked *)
Lemma dm_query_refines {A} dm d (q : rmgr -> rmgr * A) : DInv dm ->
  (forall rm, NoMF rm -> NoMF (fst (q rm)) /\ forall x y, In (x, y) (links_of (fst (q rm))) <-> In (x, y) (links_of rm)) ->
  DInv (fst (dm_query mf dmf dm d q)) /\
  links_equiv (abs_dm (fst (dm_query mf dmf dm d q))) (abs_dm dm) /\
  exists rm, NoMF rm /\ (forall x y, In (x, y) (links_of rm) <-> In (x, y, d) (abs_dm dm)) /\
             snd (dm_query mf dmf dm d q) = snd (q rm).
Proof.
  intros I Hq. unfold dm_query. destruct (get_rm mf dmf dm d false) as [dm1 rm] eqn:E.
  destruct (get_rm_spec _ _ _ _ _ I E) as [_ [N [_ [A2 [_ Hd]]]]]. rewrite (Hd eq_refl) in *. clear Hd.
  destruct (q rm) as [rm' a] eqn:Eq. destruct (Hq rm N) as [N' L']. rewrite Eq in *. cbn [fst snd] in *.
  split; [|split].
  - destruct (lookup d (d_rms dm)); [apply DInv_upd; assumption|exact I].
  - intros [[x y] d']. destruct (lookup d (d_rms dm)) as [rm0|] eqn:L; [|tauto].
    rewrite (abs_upd _ _ _ _ _ _ I), L', A2. split.
    + intros [[-> H]|[_ H]]; exact H.
    + intros H. destruct (string_dec d' d) as [->|Nd]; [left|right]; auto.
  - exists rm. rewrite Eq. auto.
Qed.

Lemma has_link_dpart n a b u r d : (forall x y, In (x, y, d) a <-> In (x, y, d) b) ->
  Roles.has_link_n n a u r d = Roles.has_link_n n b u r d.
Proof.
  intros H. apply bool_eq_iff. rewrite !has_link_iff_walk.
  assert (T : forall a b, (forall x y, In (x, y, d) a -> In (x, y, d) b) -> forall x y k, walk a d x y k -> walk b d x y k).
  { intros a0 b0 H0 x y k Wk. induction Wk; [constructor|]. econstructor; [apply H0; eassumption|assumption]. }
  split; intros [k [Hk Wk]]; exists k; (split; [exact Hk|]); eapply T; try eassumption; intros x y; apply H.
Qed.

Lemma dstep_refines n dm ls op : DInv dm -> links_equiv (abs_dm dm) ls -> plain_dop op ->
  DInv (fst (dstep mf dmf n dm op)) /\
  links_equiv (abs_dm (fst (dstep mf dmf n dm op))) (fst (adstep n ls op)) /\
  res_agree (snd (dstep mf dmf n dm op)) (snd (adstep n ls op)).
Proof.
  intros I LE HP. destruct op as [u r d|u r d|u r d|u d|u d| | |]; cbn [dstep adstep fst snd plain_dop] in *.
  - destruct (dm_add_link_refines dm u r d I) as [I' L']. split; [exact I'|]. split; [|exact Logic.I].
    intros l. rewrite (L' l), !add_link_In, (LE l). tauto.
  - destruct (dm_delete_link_refines dm u r d I) as [I' L']. split; [exact I'|]. split; [|exact Logic.I].
    intros l. rewrite (L' l), !del_link_In, (LE l). tauto.
  - destruct (dm_has_link mf dmf n dm u r d) as [dm' b] eqn:E. cbn [fst snd].
    destruct (dm_query_refines dm d (fun rm => has_link mf n rm u r) I) as [I' [L' [rm [N [A Hv]]]]].
    { intros rm N. destruct (has_link_WF Pnomf GRM_nomf URM_nomf n rm u r (proj1 N) (proj2 N)) as [W' [M' [_ L']]].
      split; [split; [exact W'|destruct N; congruence]|exact L']. }
    unfold dm_has_link in E. rewrite E in *. cbn [fst snd] in *.
    split; [exact I'|]. split; [eapply links_equiv_trans; eauto|]. cbn [res_agree]. rewrite Hv.
    rewrite (has_link_refines n d rm u r N). apply has_link_dpart. intros x y.
    rewrite abs_rm_In, A, (LE (x, y, d)). tauto.
  - destruct (dm_get_roles mf dmf dm u d) as [dm' l] eqn:E. cbn [fst snd].
    destruct (dm_query_refines dm d (fun rm => get_roles mf rm u) I) as [I' [L' [rm [N [A Hv]]]]].
    { intros rm N. destruct (get_roles_WF Pnomf GRM_nomf URM_nomf rm u (proj1 N) (proj2 N)) as [W' [M' [_ L']]].
      split; [split; [exact W'|destruct N; congruence]|exact L']. }
    unfold dm_get_roles in E. rewrite E in *. cbn [fst snd] in *.
    split; [exact I'|]. split; [eapply links_equiv_trans; eauto|]. cbn [res_agree]. rewrite Hv.
    destruct (get_roles_refines d rm u N) as [ND HI]. split; [exact ND|]. split; [apply dedup_NoDup|].
    intros x. rewrite HI, !get_roles_spec, abs_rm_In, A, (LE (u, x, d)). tauto.
  - destruct (dm_get_users mf dmf dm u d) as [dm' l] eqn:E. cbn [fst snd].
    destruct (dm_query_refines dm d (fun rm => get_users mf rm u) I) as [I' [L' [rm [N [A Hv]]]]].
    { intros rm N. destruct (get_users_WF Pnomf GRM_nomf URM_nomf rm u (proj1 N) (proj2 N)) as [W' [M' [_ L']]].
      split; [split; [exact W'|destruct N; congruence]|exact L']. }
    unfold dm_get_users in E. rewrite E in *. cbn [fst snd] in *.
    split; [exact I'|]. split; [eapply links_equiv_trans; eauto|]. cbn [res_agree]. rewrite Hv.
    destruct (get_users_refines d rm u N) as [ND HI]. split; [exact ND|]. split; [apply dedup_NoDup|].
    intros x. rewrite HI, !get_users_spec, abs_rm_In, A, (LE (x, u, d)). tauto.
  - split; [|split; [|exact Logic.I]].
    + constructor; cbn; try apply I; [constructor|tauto].
    + intros l. cbn. tauto.
  - destruct HP.
  - destruct HP.
Qed.

Theorem drun_refines n ops : forall dm ls, DInv dm -> links_equiv (abs_dm dm) ls -> Forall plain_dop ops ->
  DInv (drun mf dmf n dm ops) /\ links_equiv (abs_dm (drun mf dmf n dm ops)) (adrun n ls ops).
Proof.
  induction ops as [|op t IH]; intros dm ls I LE HF; cbn [drun adrun fold_left]; [auto|].
  inversion HF as [|x l Hop Ht]. subst.
  destruct (dstep_refines n dm ls op I LE Hop) as [I' [LE' _]]. apply (IH _ _ I' LE' Ht).
Qed.

Theorem drun_answers n ops op : Forall plain_dop ops -> plain_dop op ->
  res_agree (snd (dstep mf dmf n (drun mf dmf n new_dm ops) op)) (snd (adstep n (adrun n [] ops) op)).
Proof.
  intros HF Hop.
  destruct (drun_refines n ops new_dm [] DInv_new (links_equiv_refl _) HF) as [I LE].
  apply (dstep_refines n _ _ op I LE Hop).
Qed.

End DomNoMF.

(* ================= (c) managers WITH a matching function ================= *)
(* closed forms of addMatch / removeMatch on the heap *)
Lemma addm_get h a b x :
  hget x (role_add_match h a b) =
  option_map (fun o => mkRobj (o_name o) (o_roles o) (o_users o)
                         (if Nat.eqb a x then mput (name_of h b) b (o_matched o) else o_matched o)
                         (if Nat.eqb b x then mput (name_of h a) a (o_matchedBy o) else o_matchedBy o)) (hget x h).
Proof.
  unfold role_add_match. rewrite !hget_hupd.
  destruct (Nat.eqb b x), (Nat.eqb a x), (hget x h) as [[n r u c d]|]; reflexivity.
Qed.
Lemma delm_get h a b x :
  hget x (role_remove_match h a b) =
  option_map (fun o => mkRobj (o_name o) (o_roles o) (o_users o)
                         (if Nat.eqb a x then del (name_of h b) (o_matched o) else o_matched o)
                         (if Nat.eqb b x then del (name_of h a) (o_matchedBy o) else o_matchedBy o)) (hget x h).
Proof.
  unfold role_remove_match. rewrite !hget_hupd.
  destruct (Nat.eqb b x), (Nat.eqb a x), (hget x h) as [[n r u c d]|]; reflexivity.
Qed.

Lemma name_of_shape h h' x : shapeL h h' -> name_of h' x = name_of h x.
Proof.
  intros S. unfold name_of. specialize (S x). destruct (hget x h), (hget x h'); try tauto. apply S.
Qed.

Lemma existsb_ids_false (c : string -> bool) (l : list (string * nat)) x :
  ~ In x (map snd l) -> existsb (fun p => Nat.eqb (snd p) x && c (fst p)) l = false.
Proof.
  induction l as [|[k j] t IH]; cbn [existsb map snd fst In]; [reflexivity|]. intros H.
  rewrite IH by tauto. destruct (Nat.eqb j x) eqn:E; [apply Nat.eqb_eq in E; tauto|reflexivity].
Qed.

Lemma robj_eta o : mkRobj (o_name o) (o_roles o) (o_users o) (o_matched o) (o_matchedBy o) = o.
Proof. destruct o; reflexivity. Qed.

(* rangeMatchingRoles(name, false, r => r.addMatch(role)) : the new object i collects matchedBy,
   every matching registered object j gets matched[name] = i *)
Lemma fold1_get (c : string -> bool) name i : forall l h x,
  (forall k j, In (k, j) l -> c k = true -> j <> i) ->
  (forall k j, In (k, j) l -> name_of h j = k) -> name_of h i = name -> NoDup (map snd l) ->
  hget x (fold_left (fun hh p => if c (fst p) then role_add_match hh (snd p) i else hh) l h) =
  option_map (fun o =>
    if Nat.eqb x i
    then set_matchedBy o (fold_left (fun m p => if c (fst p) then mput (fst p) (snd p) m else m) l (o_matchedBy o))
    else if existsb (fun p => Nat.eqb (snd p) x && c (fst p)) l
         then set_matched o (mput name i (o_matched o)) else o) (hget x h).
Proof.
  induction l as [|[k j] t IH]; intros h x Hne Hnm Hi ND; cbn [fold_left existsb fst snd].
  - destruct (hget x h) as [o|]; [|reflexivity]. cbn [option_map]. destruct (Nat.eqb x i); [|reflexivity].
    unfold set_matchedBy. rewrite robj_eta. reflexivity.
  - inversion ND as [|a l' Hj ND']. subst a l'.
    assert (Hne' : forall k' j', In (k', j') t -> c k' = true -> j' <> i) by (intros; eapply Hne; [right|]; eauto).
    destruct (c k) eqn:Ck.
    + assert (Nji : j <> i) by (eapply Hne; [left; reflexivity|exact Ck]).
      assert (Hnm' : forall k' j', In (k', j') t -> name_of (role_add_match h j i) j' = k').
      { intros k' j' H. rewrite (name_of_shape h); [|apply shapeL_add_match]. apply Hnm. right. exact H. }
      assert (Hi' : name_of (role_add_match h j i) i = name).
      { rewrite (name_of_shape h); [exact Hi|apply shapeL_add_match]. }
      rewrite (IH (role_add_match h j i) x Hne' Hnm' Hi' ND').
      rewrite addm_get. rewrite (Hnm k j (or_introl eq_refl)), Hi.
      destruct (hget x h) as [o|]; [|reflexivity]. cbn [option_map]. f_equal.
      destruct (Nat.eqb x i) eqn:Exi.
      * apply Nat.eqb_eq in Exi. subst x. rewrite Nat.eqb_refl.
           assert (Eji : Nat.eqb j i = false) by (apply Nat.eqb_neq; exact Nji). rewrite Eji. reflexivity.
      * assert (Eix : Nat.eqb i x = false) by (rewrite Nat.eqb_sym; exact Exi). rewrite Eix.
        destruct (Nat.eqb j x) eqn:Ejx; cbn [andb orb].
        -- apply Nat.eqb_eq in Ejx. subst x. rewrite (existsb_ids_false c t j Hj). reflexivity.
        -- rewrite robj_eta. reflexivity.
    + assert (Hnm' : forall k' j', In (k', j') t -> name_of h j' = k') by (intros k' j' H; apply Hnm; right; exact H).
      rewrite (IH h x Hne' Hnm' Hi ND'). rewrite andb_false_r. reflexivity.
Qed.

(* rangeMatchingRoles(name, true, r => role.addMatch(r)) : the mirror image *)
Lemma fold2_get (c : string -> bool) name i : forall l h x,
  (forall k j, In (k, j) l -> c k = true -> j <> i) ->
  (forall k j, In (k, j) l -> name_of h j = k) -> name_of h i = name -> NoDup (map snd l) ->
  hget x (fold_left (fun hh p => if c (fst p) then role_add_match hh i (snd p) else hh) l h) =
  option_map (fun o =>
    if Nat.eqb x i
    then set_matched o (fold_left (fun m p => if c (fst p) then mput (fst p) (snd p) m else m) l (o_matched o))
    else if existsb (fun p => Nat.eqb (snd p) x && c (fst p)) l
         then set_matchedBy o (mput name i (o_matchedBy o)) else o) (hget x h).
Proof.
  induction l as [|[k j] t IH]; intros h x Hne Hnm Hi ND; cbn [fold_left existsb fst snd].
  - destruct (hget x h) as [o|]; [|reflexivity]. cbn [option_map]. destruct (Nat.eqb x i); [|reflexivity].
    unfold set_matched. rewrite robj_eta. reflexivity.
  - inversion ND as [|a l' Hj ND']. subst a l'.
    assert (Hne' : forall k' j', In (k', j') t -> c k' = true -> j' <> i) by (intros; eapply Hne; [right|]; eauto).
    destruct (c k) eqn:Ck.
    + assert (Nji : j <> i) by (eapply Hne; [left; reflexivity|exact Ck]).
      assert (Hnm' : forall k' j', In (k', j') t -> name_of (role_add_match h i j) j' = k').
      { intros k' j' H. rewrite (name_of_shape h); [|apply shapeL_add_match]. apply Hnm. right. exact H. }
      assert (Hi' : name_of (role_add_match h i j) i = name).
      { rewrite (name_of_shape h); [exact Hi|apply shapeL_add_match]. }
      rewrite (IH (role_add_match h i j) x Hne' Hnm' Hi' ND').
      rewrite addm_get. rewrite (Hnm k j (or_introl eq_refl)), Hi.
      destruct (hget x h) as [o|]; [|reflexivity]. cbn [option_map]. f_equal.
      destruct (Nat.eqb x i) eqn:Exi.
      * apply Nat.eqb_eq in Exi. subst x. rewrite Nat.eqb_refl.
           assert (Eji : Nat.eqb j i = false) by (apply Nat.eqb_neq; exact Nji). rewrite Eji. reflexivity.
      * assert (Eix : Nat.eqb i x = false) by (rewrite Nat.eqb_sym; exact Exi). rewrite Eix.
        destruct (Nat.eqb j x) eqn:Ejx; cbn [andb orb].
        -- apply Nat.eqb_eq in Ejx. subst x. rewrite (existsb_ids_false c t j Hj). reflexivity.
        -- rewrite robj_eta. reflexivity.
    + assert (Hnm' : forall k' j', In (k', j') t -> name_of h j' = k') by (intros k' j' H; apply Hnm; right; exact H).
      rewrite (IH h x Hne' Hnm' Hi ND'). rewrite andb_false_r. reflexivity.
Qed.

Lemma fold_cond_mput (c : string -> bool) : forall (l m0 : list (string * nat)),
  NoDup (map fst m0) -> NoDup (map fst l) -> (forall k, In k (map fst l) -> ~ In k (map fst m0)) ->
  let res := fold_left (fun m p => if c (fst p) then mput (fst p) (snd p) m else m) l m0 in
  NoDup (map fst res) /\ forall k v, In (k, v) res <-> In (k, v) m0 \/ (In (k, v) l /\ c k = true).
Proof.
  induction l as [|[k j] t IH]; intros m0 N0 NL Dj; cbn [fold_left fst snd].
  - split; [exact N0|]. intros k v. cbn [In]. tauto.
  - inversion NL as [|a l' Hk NL']. subst.
    set (m1 := if c k then mput k j m0 else m0).
    assert (N1 : NoDup (map fst m1)) by (unfold m1; destruct (c k); [apply mput_nodup|]; exact N0).
    assert (D1 : forall k', In k' (map fst t) -> ~ In k' (map fst m1)).
    { intros k' H. unfold m1. destruct (c k); [|apply Dj; right; exact H].
      rewrite mput_keys. intros [->|H']; [contradiction|]. apply (Dj k'); [right; exact H|exact H']. }
    destruct (IH m1 N1 NL' D1) as [R1 R2]. split; [exact R1|]. intros k' v. rewrite R2. unfold m1. cbn [In].
    assert (Hk0 : ~ In k (map fst m0)) by (apply Dj; left; reflexivity).
    destruct (c k) eqn:Ck.
    + rewrite (mput_In k j m0 k' v N0). split.
      * intros [[[-> ->]|[_ H]]|[H C]]; auto.
      * intros [H|[[H|H] C]]; [|inversion H; subst; auto|auto].
        left. right. split; [|exact H]. intros ->. apply Hk0. eapply In_keys; eauto.
    + split; [intros [H|[H C]]; auto|]. intros [H|[[H|H] C]]; auto. inversion H. subst. congruence.
Qed.

Lemma ids_nodup s : WFs s -> NoDup (map snd (m_all s)).
Proof.
  intros W. assert (Hinj : forall k k' j, In (k, j) (m_all s) -> In (k', j) (m_all s) -> k = k').
  { intros k k' j H1 H2. eapply regd_inj; eauto. }
  pose proof (ws_nodup _ W) as ND. clear W. induction (m_all s) as [|[k j] t IH]; cbn [map snd]; [constructor|].
  inversion ND as [|a l' Hk ND']. subst. constructor.
  - intros H. apply in_map_iff in H as [[k' j'] [E H]]. cbn [snd] in E. subst j'.
    assert (k = k') by (eapply Hinj; [left; reflexivity|right; exact H]). subst k'. apply Hk. eapply In_keys; eauto.
  - apply IH; [|exact ND']. intros k1 k2 j' H1 H2. eapply Hinj; right; eauto.
Qed.

Lemma cond1_iff name k : negb (String.eqb name k) && rm_match mf true name k = true <-> k <> name /\ mf name k = true.
Proof.
  unfold rm_match. rewrite andb_true_iff, negb_true_iff, String.eqb_neq, orb_true_iff, andb_true_iff, String.eqb_eq.
  split; [intros [N [E|[_ H]]]; [congruence|split; [congruence|exact H]]|intros [N H]; split; [congruence|auto]].
Qed.
Lemma cond2_iff name k : negb (String.eqb name k) && rm_match mf true k name = true <-> k <> name /\ mf k name = true.
Proof.
  unfold rm_match. rewrite andb_true_iff, negb_true_iff, String.eqb_neq, orb_true_iff, andb_true_iff, String.eqb_eq.
  split; [intros [N [E|[_ H]]]; [congruence|split; [congruence|exact H]]|intros [N H]; split; [congruence|auto]].
Qed.

Lemma existsb_id s (c : string -> bool) k j : WFs s -> regd s k j ->
  existsb (fun p => Nat.eqb (snd p) j && c (fst p)) (m_all s) = c k.
Proof.
  intros W H. apply bool_eq_iff. rewrite existsb_exists. split.
  - intros [[k' j'] [H' E]]. cbn [fst snd] in E. apply andb_true_iff in E as [E C]. apply Nat.eqb_eq in E. subst j'.
    assert (k' = k) by (eapply regd_inj; eauto). subst. exact C.
  - intros C. exists (k, j). split; [exact H|]. cbn [fst snd]. rewrite Nat.eqb_refl. exact C.
Qed.

(* getRole with a matching function establishes the matched maps of the new object and extends
   those of every registered object it is related to *)
Lemma get_role_WFm_mf s name s' i c : WF s -> m_mf s = true -> get_role mf s name = (s', i, c) -> WFm s'.
Proof.
  intros [W Wm] Hm E. destruct (lookup name (m_all s)) as [i0|] eqn:L.
  - rewrite (get_role_old _ _ _ L) in E. inversion E. subst. exact Wm.
  - rewrite (get_role_new _ _ L) in E. inversion E. subst s' i c. clear E.
    pose proof (WFs_alloc _ name true W L) as W0.
    set (i := m_next s) in *. set (h0 := m_heap s ++ [(i, new_obj name)]) in *.
    set (all' := mput name i (m_all s)) in *. set (s0 := mkRm h0 (S i) all' true) in *.
    assert (Hfr : hget i (m_heap s) = None).
    { destruct (hget i (m_heap s)) eqn:G; [|reflexivity]. apply (ws_fresh _ W) in G. unfold i in G. lia. }
    assert (Hcases : forall k j, In (k, j) all' <-> (k = name /\ j = i) \/ (k <> name /\ regd s k j)).
    { intros k j. unfold all'. apply mput_In. apply (ws_nodup _ W). }
    assert (Hold : forall k j, regd s k j -> j <> i /\ k <> name).
    { intros k j H. destruct (ws_obj _ W _ _ H) as [o [G _]]. split.
      - intros ->. congruence.
      - intros ->. apply lookup_None_notin in L. apply L. eapply In_keys; eauto. }
    set (c1 := fun k => negb (String.eqb name k) && rm_match mf true name k).
    set (c2 := fun k => negb (String.eqb name k) && rm_match mf true k name).
    assert (P1 : forall cc, (cc = c1 \/ cc = c2) -> forall k j, In (k, j) all' -> cc k = true -> j <> i).
    { intros cc Hc k j H C. apply Hcases in H as [[-> ->]|[_ H]]; [|apply (Hold _ _ H)].
      destruct Hc as [-> | ->]; unfold c1, c2 in C; rewrite String.eqb_refl in C; discriminate. }
    assert (P2 : forall k j, In (k, j) all' -> name_of h0 j = k) by (intros k j H; apply (name_of_regd s0 k j W0 H)).
    assert (P3 : name_of h0 i = name).
    { apply (name_of_regd s0 name i W0). apply Hcases. auto. }
    pose proof (ids_nodup s0 W0) as P4. cbn [s0 m_all] in P4.
    unfold gr_heap. rewrite Hm. fold i h0 all'. fold c1 c2.
    change (fun hh p => if negb (String.eqb name (fst p)) && rm_match mf true name (fst p) then role_add_match hh (snd p) i else hh)
      with (fun hh p => if c1 (fst p) then role_add_match hh (snd p) i else hh).
    change (fun hh p => if negb (String.eqb name (fst p)) && rm_match mf true (fst p) name then role_add_match hh i (snd p) else hh)
      with (fun hh p => if c2 (fst p) then role_add_match hh i (snd p) else hh).
    set (h1 := fold_left (fun hh p => if c1 (fst p) then role_add_match hh (snd p) i else hh) all' h0).
    assert (S1 : shapeL h0 h1).
    { apply fold_shape; [exact sameL_refl|exact sameL_trans|]. intros hh p. cbv beta. destruct (c1 (fst p));
        [apply shapeL_add_match|apply shape_refl; exact sameL_refl]. }
    assert (P2' : forall k j, In (k, j) all' -> name_of h1 j = k) by (intros k j H; rewrite (name_of_shape h0 h1 j S1); auto).
    assert (P3' : name_of h1 i = name) by (rewrite (name_of_shape h0 h1 i S1); exact P3).
    intros k j o' H G. unfold regd in H. cbn [m_all m_heap m_mf] in *.
    rewrite (fold2_get c2 name i all' h1 j (P1 c2 (or_intror eq_refl)) P2' P3' P4) in G.
    unfold h1 in G. rewrite (fold1_get c1 name i all' h0 j (P1 c1 (or_introl eq_refl)) P2 P3 P4) in G.
    apply Hcases in H. destruct H as [[-> ->]|[Nk H]].
    + (* the new object *)
      unfold h0 in G. rewrite hget_app, Hfr, !Nat.eqb_refl in G. cbn [option_map] in G.
      inversion G. subst o'. clear G. cbn [set_matched set_matchedBy o_matched o_matchedBy new_obj].
      assert (NDa : NoDup (map fst all')) by (unfold all'; apply mput_nodup; apply (ws_nodup _ W)).
      destruct (fold_cond_mput c1 all' [] (NoDup_nil _) NDa (fun _ _ H => H)) as [N1 I1].
      destruct (fold_cond_mput c2 all' [] (NoDup_nil _) NDa (fun _ _ H => H)) as [N2 I2].
      cbv zeta in N1, I1, N2, I2. split; [exact N2|]. split; [exact N1|]. split.
      * intros mk v. rewrite I2. cbn [In]. unfold c2. rewrite cond2_iff. unfold regd. cbn [m_all]. tauto.
      * intros pk v. rewrite I1. cbn [In]. unfold c1. rewrite cond1_iff. unfold regd. cbn [m_all]. tauto.
    + (* an object registered before *)
      destruct (Hold _ _ H) as [Nji _]. destruct (ws_obj _ W _ _ H) as [o0 [G0 _]].
      assert (Eji : Nat.eqb j i = false) by (apply Nat.eqb_neq; exact Nji).
      unfold h0 in G. rewrite hget_app, G0 in G. cbn [option_map] in G. rewrite Eji in G.
      assert (Hk' : regd s0 k j) by (apply Hcases; auto).
      pose proof (existsb_id s0 c1 k j W0 Hk') as X1. pose proof (existsb_id s0 c2 k j W0 Hk') as X2.
      cbn [s0 m_all] in X1, X2. rewrite X1, X2 in G.
      destruct (Wm _ _ _ H G0) as [NM [NB [SM SB]]].
      assert (Hname : forall m v, (forall a b, In (a, b) m -> regd s a b) -> ~ In (name, v) m).
      { intros m v Hm0 HI. apply Hm0 in HI. apply (Hold _ _ HI). reflexivity. }
      assert (Rm : forall a b, In (a, b) (o_matched o0) -> regd s a b) by (intros a b HI; apply SM in HI; tauto).
      assert (Rb : forall a b, In (a, b) (o_matchedBy o0) -> regd s a b) by (intros a b HI; apply SB in HI; tauto).
      assert (Em : o_matched o' = if c1 k then mput name i (o_matched o0) else o_matched o0).
      { inversion G. destruct (c1 k), (c2 k); reflexivity. }
      assert (Eb : o_matchedBy o' = if c2 k then mput name i (o_matchedBy o0) else o_matchedBy o0).
      { inversion G. destruct (c1 k), (c2 k); reflexivity. }
      rewrite Em, Eb. unfold regd. cbn [m_all]. fold all'.
      split; [destruct (c1 k); [apply mput_nodup|]; exact NM|]. split; [destruct (c2 k); [apply mput_nodup|]; exact NB|].
      split.
      * intros mk v. rewrite Hcases. destruct (c1 k) eqn:C1.
        -- apply cond1_iff in C1 as [_ C1]. rewrite (mput_In name i _ mk v NM), SM. split.
           ++ intros [[-> ->]|[N [R [N2 [_ F]]]]]; [split; [auto|split; [congruence|auto]]|split; [auto|auto]].
           ++ intros [[[-> ->]|[N R]] [N2 [_ F]]]; [auto|right; auto].
        -- rewrite SM. split.
           ++ intros [R [N2 [_ F]]]. split; [right; split; [apply (Hold _ _ R)|exact R]|auto].
           ++ intros [[[-> ->]|[N R]] [N2 [_ F]]]; [|auto]. exfalso.
              assert (C : c1 k = true) by (apply cond1_iff; auto). congruence.
      * intros pk v. rewrite Hcases. destruct (c2 k) eqn:C2.
        -- apply cond2_iff in C2 as [_ C2]. rewrite (mput_In name i _ pk v NB), SB. split.
           ++ intros [[-> ->]|[N [R [N2 [_ F]]]]]; [split; [auto|split; [congruence|auto]]|split; [auto|auto]].
           ++ intros [[[-> ->]|[N R]] [N2 [_ F]]]; [auto|right; auto].
        -- rewrite SB. split.
           ++ intros [R [N2 [_ F]]]. split; [right; split; [apply (Hold _ _ R)|exact R]|auto].
           ++ intros [[[-> ->]|[N R]] [N2 [_ F]]]; [|auto]. exfalso.
              assert (C : c2 k = true) by (apply cond2_iff; auto). congruence.
Qed.

Lemma nodup_snd (l : list (string * nat)) :
  NoDup (map fst l) -> (forall k k' j, In (k, j) l -> In (k', j) l -> k = k') -> NoDup (map snd l).
Proof.
  induction l as [|[k j] t IH]; cbn [map fst snd]; intros ND Hinj; [constructor|].
  inversion ND as [|a l' Hk ND']. subst a l'. constructor.
  - intros H. apply in_map_iff in H as [[k' j'] [E H]]. cbn [snd] in E. subst j'.
    assert (k = k') by (eapply Hinj; [left; reflexivity|right; exact H]). subst k'. apply Hk. eapply In_keys; eauto.
  - apply IH; [exact ND'|]. intros k1 k2 j' H1 H2. eapply Hinj; right; eauto.
Qed.

Lemma existsb_snd (l : list (string * nat)) x :
  existsb (fun p => Nat.eqb (snd p) x && true) l = true <-> exists k, In (k, x) l.
Proof.
  rewrite existsb_exists. split.
  - intros [[k j] [H E]]. cbn [snd] in E. rewrite andb_true_r in E. apply Nat.eqb_eq in E. subst. eauto.
  - intros [k H]. exists (k, x). split; [exact H|]. cbn [snd]. rewrite Nat.eqb_refl. reflexivity.
Qed.

(* first loop of removeMatches: r.removeMatch(v) for every v in r.matched *)
Lemma foldA_get name i : forall l h x,
  (forall k j, In (k, j) l -> j <> i) ->
  (forall k j, In (k, j) l -> name_of h j = k) -> name_of h i = name -> NoDup (map snd l) ->
  hget x (fold_left (fun hh p => role_remove_match hh i (snd p)) l h) =
  option_map (fun o =>
    if Nat.eqb x i
    then set_matched o (fold_left (fun m p => del (fst p) m) l (o_matched o))
    else if existsb (fun p => Nat.eqb (snd p) x && true) l
         then set_matchedBy o (del name (o_matchedBy o)) else o) (hget x h).
Proof.
  induction l as [|[k j] t IH]; intros h x Hne Hnm Hi ND; cbn [fold_left existsb fst snd].
  - destruct (hget x h) as [o|]; [|reflexivity]. cbn [option_map]. destruct (Nat.eqb x i); [|reflexivity].
    unfold set_matched. rewrite robj_eta. reflexivity.
  - inversion ND as [|a l' Hj ND']. subst a l'.
    assert (Hne' : forall k' j', In (k', j') t -> j' <> i) by (intros; eapply Hne; right; eauto).
    assert (Nji : j <> i) by (eapply Hne; left; reflexivity).
    assert (Hnm' : forall k' j', In (k', j') t -> name_of (role_remove_match h i j) j' = k').
    { intros k' j' H. rewrite (name_of_shape h); [|apply shapeL_remove_match]. apply Hnm. right. exact H. }
    assert (Hi' : name_of (role_remove_match h i j) i = name).
    { rewrite (name_of_shape h); [exact Hi|apply shapeL_remove_match]. }
    rewrite (IH (role_remove_match h i j) x Hne' Hnm' Hi' ND').
    rewrite delm_get. rewrite (Hnm k j (or_introl eq_refl)), Hi.
    destruct (hget x h) as [o|]; [|reflexivity]. cbn [option_map]. f_equal.
    destruct (Nat.eqb x i) eqn:Exi.
    + apply Nat.eqb_eq in Exi. subst x. rewrite Nat.eqb_refl.
      assert (Eji : Nat.eqb j i = false) by (apply Nat.eqb_neq; exact Nji). rewrite Eji. reflexivity.
    + assert (Eix : Nat.eqb i x = false) by (rewrite Nat.eqb_sym; exact Exi). rewrite Eix.
      destruct (Nat.eqb j x) eqn:Ejx; cbn [andb orb].
      * apply Nat.eqb_eq in Ejx. subst x. rewrite (existsb_ids_false (fun _ => true) t j Hj). reflexivity.
      * rewrite robj_eta. reflexivity.
Qed.

(* second loop: v.removeMatch(r) for every v in r.matchedBy *)
Lemma foldB_get name i : forall l h x,
  (forall k j, In (k, j) l -> j <> i) ->
  (forall k j, In (k, j) l -> name_of h j = k) -> name_of h i = name -> NoDup (map snd l) ->
  hget x (fold_left (fun hh p => role_remove_match hh (snd p) i) l h) =
  option_map (fun o =>
    if Nat.eqb x i
    then set_matchedBy o (fold_left (fun m p => del (fst p) m) l (o_matchedBy o))
    else if existsb (fun p => Nat.eqb (snd p) x && true) l
         then set_matched o (del name (o_matched o)) else o) (hget x h).
Proof.
  induction l as [|[k j] t IH]; intros h x Hne Hnm Hi ND; cbn [fold_left existsb fst snd].
  - destruct (hget x h) as [o|]; [|reflexivity]. cbn [option_map]. destruct (Nat.eqb x i); [|reflexivity].
    unfold set_matchedBy. rewrite robj_eta. reflexivity.
  - inversion ND as [|a l' Hj ND']. subst a l'.
    assert (Hne' : forall k' j', In (k', j') t -> j' <> i) by (intros; eapply Hne; right; eauto).
    assert (Nji : j <> i) by (eapply Hne; left; reflexivity).
    assert (Hnm' : forall k' j', In (k', j') t -> name_of (role_remove_match h j i) j' = k').
    { intros k' j' H. rewrite (name_of_shape h); [|apply shapeL_remove_match]. apply Hnm. right. exact H. }
    assert (Hi' : name_of (role_remove_match h j i) i = name).
    { rewrite (name_of_shape h); [exact Hi|apply shapeL_remove_match]. }
    rewrite (IH (role_remove_match h j i) x Hne' Hnm' Hi' ND').
    rewrite delm_get. rewrite (Hnm k j (or_introl eq_refl)), Hi.
    destruct (hget x h) as [o|]; [|reflexivity]. cbn [option_map]. f_equal.
    destruct (Nat.eqb x i) eqn:Exi.
    + apply Nat.eqb_eq in Exi. subst x. rewrite Nat.eqb_refl.
      assert (Eji : Nat.eqb j i = false) by (apply Nat.eqb_neq; exact Nji). rewrite Eji. reflexivity.
    + assert (Eix : Nat.eqb i x = false) by (rewrite Nat.eqb_sym; exact Exi). rewrite Eix.
      destruct (Nat.eqb j x) eqn:Ejx; cbn [andb orb].
      * apply Nat.eqb_eq in Ejx. subst x. rewrite (existsb_ids_false (fun _ => true) t j Hj). reflexivity.
      * rewrite robj_eta. reflexivity.
Qed.

(* removeRole with a matching function: every other object forgets the removed name *)
Lemma unreg_WFm_mf s name : WF s -> m_mf s = true -> WFm (remove_role s name).
Proof.
  intros [W Wm] Hm. destruct (lookup name (m_all s)) as [i|] eqn:L; [|unfold remove_role; rewrite L; exact Wm].
  rewrite (remove_role_eq _ _ _ L). apply lookup_In in L. fold (regd s name i) in L.
  destruct (ws_obj _ W _ _ L) as [oi [Gi Ni]]. destruct (Wm _ _ _ L Gi) as [NA [NB [SA SB]]].
  set (lA := o_matched oi) in *. set (lB := o_matchedBy oi) in *.
  assert (HA : forall k j, In (k, j) lA -> regd s k j /\ j <> i).
  { intros k j H. apply SA in H as [R [N _]]. split; [exact R|]. intros ->. apply N. eapply regd_inj; eauto. }
  assert (HB : forall k j, In (k, j) lB -> regd s k j /\ j <> i).
  { intros k j H. apply SB in H as [R [N _]]. split; [exact R|]. intros ->. apply N. eapply regd_inj; eauto. }
  assert (IA : NoDup (map snd lA)).
  { apply nodup_snd; [exact NA|]. intros k k' j H1 H2. eapply regd_inj; [exact W|apply HA; eauto|apply HA; eauto]. }
  assert (IB : NoDup (map snd lB)).
  { apply nodup_snd; [exact NB|]. intros k k' j H1 H2. eapply regd_inj; [exact W|apply HB; eauto|apply HB; eauto]. }
  unfold role_remove_matches. rewrite (obj_of_get _ _ _ Gi). fold lA.
  set (h1 := fold_left (fun hh p => role_remove_match hh i (snd p)) lA (m_heap s)).
  assert (S1 : shapeL (m_heap s) h1).
  { apply fold_shape; [exact sameL_refl|exact sameL_trans|]. intros hh p. apply shapeL_remove_match. }
  assert (GA : forall x, hget x h1 = option_map (fun o =>
             if Nat.eqb x i then set_matched o (fold_left (fun m p => del (fst p) m) lA (o_matched o))
             else if existsb (fun p => Nat.eqb (snd p) x && true) lA then set_matchedBy o (del name (o_matchedBy o)) else o)
             (hget x (m_heap s))).
  { intros x. unfold h1. apply foldA_get; [intros k j H; apply (HA _ _ H)| |apply name_of_regd; assumption|exact IA].
    intros k j H. apply name_of_regd; [exact W|apply (HA _ _ H)]. }
  assert (Gi1 : o_matchedBy (obj_of h1 i) = lB).
  { unfold obj_of. rewrite GA, Gi. cbn [option_map]. rewrite Nat.eqb_refl. reflexivity. }
  rewrite Gi1.
  assert (GB : forall x, hget x (fold_left (fun hh p => role_remove_match hh (snd p) i) lB h1) = option_map (fun o =>
             if Nat.eqb x i then set_matchedBy o (fold_left (fun m p => del (fst p) m) lB (o_matchedBy o))
             else if existsb (fun p => Nat.eqb (snd p) x && true) lB then set_matched o (del name (o_matched o)) else o)
             (hget x h1)).
  { intros x. apply foldB_get; [intros k j H; apply (HB _ _ H)| | |exact IB].
    - intros k j H. rewrite (name_of_shape _ _ _ S1). apply name_of_regd; [exact W|apply (HB _ _ H)].
    - rewrite (name_of_shape _ _ _ S1). apply name_of_regd; assumption. }
  intros k j o' H G. unfold regd in H. cbn [m_all m_heap m_mf] in *. apply del_In in H as [Nk H].
  fold (regd s k j) in H.
  assert (Nji : j <> i) by (intros ->; apply Nk; eapply regd_inj; eauto).
  assert (Eji : Nat.eqb j i = false) by (apply Nat.eqb_neq; exact Nji).
  destruct (ws_obj _ W _ _ H) as [oj [Gj _]]. destruct (Wm _ _ _ H Gj) as [NM [NBy [SM SBy]]].
  rewrite GB, GA, Gj in G. cbn [option_map] in G. rewrite Eji in G.
  set (eA := existsb (fun p => Nat.eqb (snd p) j && true) lA) in *.
  set (eB := existsb (fun p => Nat.eqb (snd p) j && true) lB) in *.
  assert (XA : eA = true <-> mf k name = true).
  { unfold eA. rewrite existsb_snd. split.
    - intros [k' H']. pose proof (proj1 (HA _ _ H')) as R. assert (k' = k) by (eapply regd_inj; eauto). subst k'.
      apply SA in H'. tauto.
    - intros F. exists k. apply SA. auto. }
  assert (XB : eB = true <-> mf name k = true).
  { unfold eB. rewrite existsb_snd. split.
    - intros [k' H']. pose proof (proj1 (HB _ _ H')) as R. assert (k' = k) by (eapply regd_inj; eauto). subst k'.
      apply SB in H'. tauto.
    - intros F. exists k. apply SB. auto. }
  assert (Em : o_matched o' = if eB then del name (o_matched oj) else o_matched oj).
  { inversion G. destruct eA, eB; reflexivity. }
  assert (Eb : o_matchedBy o' = if eA then del name (o_matchedBy oj) else o_matchedBy oj).
  { inversion G. destruct eA, eB; reflexivity. }
  rewrite Em, Eb. unfold regd. cbn [m_all].
  split; [destruct eB; [apply del_nodup|]; exact NM|]. split; [destruct eA; [apply del_nodup|]; exact NBy|].
  split.
  - intros mk v. rewrite (del_In name (m_all s) mk v). fold (regd s mk v). destruct eB eqn:EB.
    + rewrite del_In, SM. tauto.
    + rewrite SM. split; [|tauto]. intros [R [N2 [Hm' F]]]. split; [split; [|exact R]|auto].
      intros ->. assert (eB' : false = true) by (apply XB; exact F). discriminate.
  - intros pk v. rewrite (del_In name (m_all s) pk v). fold (regd s pk v). destruct eA eqn:EA.
    + rewrite del_In, SBy. tauto.
    + rewrite SBy. split; [|tauto]. intros [R [N2 [Hm' F]]]. split; [split; [|exact R]|auto].
      intros ->. assert (eA' : false = true) by (apply XA; exact F). discriminate.
Qed.

Notation Pany := (fun _ : bool => True).
Lemma GRM_any : GRM Pany.
Proof.
  intros s name s' i c W _ E. destruct (m_mf s) eqn:Hm.
  - eapply get_role_WFm_mf; eauto.
  - eapply get_role_WFm_nomf; eauto.
Qed.
Lemma URM_any : URM Pany.
Proof.
  intros s name W _. destruct (m_mf s) eqn:Hm.
  - apply unreg_WFm_mf; assumption.
  - apply unreg_WFm_nomf; assumption.
Qed.

(* ---------- the invariant over ALL histories (matching function registered at any time) ---------- *)
Lemma add_links_WF ls : forall s, WF s ->
  WF (add_links mf s ls) /\ m_mf (add_links mf s ls) = m_mf s /\
  (forall x y, In (x, y) (links_of (add_links mf s ls)) <-> In (x, y) ls \/ In (x, y) (links_of s)) /\
  (forall k, In k (map fst (m_all (add_links mf s ls))) <->
             (exists x y, In (x, y) ls /\ (k = x \/ k = y)) \/ In k (map fst (m_all s))).
Proof.
  induction ls as [|[a b] t IH]; intros s W; unfold add_links; cbn [fold_left fst snd].
  - split; [exact W|]. split; [reflexivity|]. split; [intros; cbn [In]; tauto|].
    intros k. split; [auto|intros [[x [y [[] _]]]|H]; exact H].
  - destruct (add_link_WF Pany GRM_any s a b W Logic.I) as [W1 [M1 [L1 N1]]].
    destruct (IH _ W1) as [W2 [M2 [L2 N2]]]. unfold add_links in *.
    split; [exact W2|]. split; [congruence|]. split.
    + intros x y. rewrite L2, L1. cbn [In]. split.
      * intros [H|[[-> ->]|H]]; auto.
      * intros [[H|H]|H]; [inversion H; subst; auto|auto|auto].
    + intros k. rewrite N2, N1. cbn [In]. split.
      * intros [[x [y [H Hk]]]|[Hk|[Hk|H]]]; [left; exists x, y; auto|left; exists a, b; auto|left; exists a, b; auto|auto].
      * intros [[x [y [[H|H] Hk]]]|H]; [inversion H; subst x y; destruct Hk as [Hk|Hk]; auto|left; exists x, y; auto|auto].
Qed.

Lemma rm_add_matching_func_WF s : WF s ->
  WF (rm_add_matching_func mf s) /\ m_mf (rm_add_matching_func mf s) = true /\
  (forall x y, In (x, y) (links_of (rm_add_matching_func mf s)) <-> In (x, y) (links_of s)) /\
  (forall k, In k (map fst (m_all (rm_add_matching_func mf s))) <-> exists x y, In (x, y) (links_of s) /\ (k = x \/ k = y)).
Proof.
  intros W. unfold rm_add_matching_func, rm_rebuild.
  set (s1 := mkRm (m_heap s) (m_next s) (m_all s) true).
  assert (E : links_of s1 = links_of s) by reflexivity. rewrite E.
  destruct (add_links_WF (links_of s) (rm_clear s1) (WF_clear s1)) as [W2 [M2 [L2 N2]]].
  split; [exact W2|]. split; [rewrite M2; reflexivity|]. split.
  - intros x y. rewrite L2. cbn. tauto.
  - intros k. rewrite N2. cbn. tauto.
Qed.

Lemma rstep_WF n s op : WF s -> WF (fst (rstep mf n s op)).
Proof.
  intros W. destruct op as [u r|u r|u r|u|u| |]; cbn [rstep].
  - apply (add_link_WF Pany GRM_any s u r W Logic.I).
  - apply (delete_link_WF Pany GRM_any s u r W Logic.I).
  - destruct (has_link mf n s u r) as [s' b] eqn:E. cbn [fst].
    pose proof (proj1 (has_link_WF Pany GRM_any URM_any n s u r W Logic.I)) as H. rewrite E in H. exact H.
  - destruct (get_roles mf s u) as [s' b] eqn:E. cbn [fst].
    pose proof (proj1 (get_roles_WF Pany GRM_any URM_any s u W Logic.I)) as H. rewrite E in H. exact H.
  - destruct (get_users mf s u) as [s' b] eqn:E. cbn [fst].
    pose proof (proj1 (get_users_WF Pany GRM_any URM_any s u W Logic.I)) as H. rewrite E in H. exact H.
  - apply WF_clear.
  - apply rm_add_matching_func_WF. exact W.
Qed.

Theorem rrun_WF_any n ops : forall s, WF s -> WF (rrun mf n s ops).
Proof.
  induction ops as [|op t IH]; intros s W; cbn [rrun fold_left]; [exact W|]. apply IH. apply rstep_WF. exact W.
Qed.

(* ---------- HasLink with a matching function: bounded reachability in the closure graph ---------- *)
(* the edges hasLinkHelper follows: a stored link, or a stored link into a pattern w followed by a
   registered name y that matches w, or a registered pattern p that x matches followed by a stored
   link of p *)
Definition pedge (L : list (string * string)) (N : list string) (b : bool) (x y : string) : Prop :=
  In (x, y) L \/
  (b = true /\ exists w, In (x, w) L /\ In y N /\ y <> w /\ mf y w = true) \/
  (b = true /\ exists p, In p N /\ p <> x /\ mf x p = true /\ In (p, y) L).
Inductive pwalk (L : list (string * string)) (N : list string) (b : bool) : string -> string -> nat -> Prop :=
| pw0 x : pwalk L N b x x 0
| pwS x y z k : pedge L N b x y -> pwalk L N b y z k -> pwalk L N b x z (S k).

Lemma keys_regd s k : In k (map fst (m_all s)) <-> exists j, regd s k j.
Proof.
  split.
  - intros H. apply in_map_iff in H as [[k' j] [E H]]. cbn [fst] in E. subst. eauto.
  - intros [j H]. eapply In_keys; eauto.
Qed.

Lemma roles_key_link s x i o y : WFs s -> regd s x i -> hget i (m_heap s) = Some o ->
  (In y (map fst (o_roles o)) <-> In (x, y) (links_of s)).
Proof.
  intros W H G. rewrite (links_of_In _ _ _ W). split; [eauto|].
  intros [i' [o' [H' [G' HI]]]]. assert (i' = i) by (eapply regd_fun; eauto). subst. congruence.
Qed.

Lemma sedge_spec s x i y : WF s -> regd s x i ->
  (sedge s x y <-> pedge (links_of s) (map fst (m_all s)) (m_mf s) x y).
Proof.
  intros [W Wm] H. destruct (ws_obj _ W _ _ H) as [o [G _]].
  rewrite (sedge_iff _ _ _ _ y W H G). unfold range_roles, pedge. rewrite !map_app, !in_app_iff.
  rewrite (roles_key_link _ _ _ _ y W H G).
  assert (E2 : In y (map fst (flat_map (fun p => o_matched (obj_of (m_heap s) (snd p))) (o_roles o))) <->
               (m_mf s = true /\ exists w, In (x, w) (links_of s) /\ In y (map fst (m_all s)) /\ y <> w /\ mf y w = true)).
  { rewrite in_map_iff. split.
    - intros [[y' v] [Ey HI]]. cbn [fst] in Ey. subst y'. apply in_flat_map in HI as [[w j1] [H1 H2]]. cbn [snd] in H2.
      destruct (ws_roles _ W _ _ _ _ _ H G H1) as [R1 _]. destruct (ws_obj _ W _ _ R1) as [o1 [G1 _]].
      rewrite (obj_of_get _ _ _ G1) in H2. destruct (Wm _ _ _ R1 G1) as [_ [_ [M _]]]. apply M in H2 as [Ry [Ny [Hm F]]].
      split; [exact Hm|]. exists w. split; [apply (roles_key_link _ _ _ _ w W H G); eapply In_keys; eauto|].
      split; [apply keys_regd; eauto|auto].
    - intros [Hm [w [Hl [Hy [Ny F]]]]]. apply (roles_key_link _ _ _ _ w W H G) in Hl.
      apply in_map_iff in Hl as [[w' j1] [Ew H1]]. cbn [fst] in Ew. subst w'.
      destruct (ws_roles _ W _ _ _ _ _ H G H1) as [R1 _]. destruct (ws_obj _ W _ _ R1) as [o1 [G1 _]].
      apply keys_regd in Hy as [v Ry]. exists (y, v). split; [reflexivity|]. apply in_flat_map. exists (w, j1).
      split; [exact H1|]. cbn [snd]. rewrite (obj_of_get _ _ _ G1). destruct (Wm _ _ _ R1 G1) as [_ [_ [M _]]]. apply M. auto. }
  assert (E3 : In y (map fst (flat_map (fun p => o_roles (obj_of (m_heap s) (snd p))) (o_matchedBy o))) <->
               (m_mf s = true /\ exists p, In p (map fst (m_all s)) /\ p <> x /\ mf x p = true /\ In (p, y) (links_of s))).
  { destruct (Wm _ _ _ H G) as [_ [_ [_ M]]]. rewrite in_map_iff. split.
    - intros [[y' v] [Ey HI]]. cbn [fst] in Ey. subst y'. apply in_flat_map in HI as [[p j1] [H1 H2]]. cbn [snd] in H2.
      apply M in H1 as [R1 [Np [Hm F]]]. destruct (ws_obj _ W _ _ R1) as [o1 [G1 _]].
      rewrite (obj_of_get _ _ _ G1) in H2. split; [exact Hm|]. exists p. split; [apply keys_regd; eauto|].
      split; [exact Np|split; [exact F|]]. apply (roles_key_link _ _ _ _ y W R1 G1). eapply In_keys; eauto.
    - intros [Hm [p [Hp [Np [F Hl]]]]]. apply keys_regd in Hp as [j1 R1]. destruct (ws_obj _ W _ _ R1) as [o1 [G1 _]].
      apply (roles_key_link _ _ _ _ y W R1 G1) in Hl. apply in_map_iff in Hl as [[y' v] [Ey H2]]. cbn [fst] in Ey. subst y'.
      exists (y, v). split; [reflexivity|]. apply in_flat_map. exists (p, j1). split; [apply M; auto|].
      cbn [snd]. rewrite (obj_of_get _ _ _ G1). exact H2. }
  rewrite E2, E3. tauto.
Qed.

Lemma sedge_target_regd s x y : WF s -> sedge s x y -> exists j, regd s y j.
Proof.
  intros W [i [o [H [G HI]]]]. apply in_map_iff in HI as [[y' j] [E HI]]. cbn [fst] in E. subst y'.
  exists j. eapply range_roles_regd; eauto.
Qed.

Lemma swalk_pwalk s x y k : WF s -> swalk s x y k -> pwalk (links_of s) (map fst (m_all s)) (m_mf s) x y k.
Proof.
  intros W Wk. induction Wk as [x|x y z k He Hw IH]; [constructor|]. econstructor; [|exact IH].
  destruct He as [i [o [H [G HI]]]]. apply (sedge_spec s x i y W H). exists i, o. auto.
Qed.
Lemma pwalk_swalk s x y k : WF s -> (exists i, regd s x i) ->
  pwalk (links_of s) (map fst (m_all s)) (m_mf s) x y k -> swalk s x y k.
Proof.
  intros W Hx Wk. induction Wk as [x|x y z k He Hw IH]; [constructor|]. destruct Hx as [i H].
  apply (sedge_spec s x i y W H) in He. econstructor; [exact He|]. apply IH. eapply sedge_target_regd; eauto.
Qed.

Lemma pwalk_equiv L N L' N' b x y k : (forall a c, In (a, c) L <-> In (a, c) L') -> (forall a, In a N <-> In a N') ->
  pwalk L N b x y k -> pwalk L' N' b x y k.
Proof.
  intros HL HN Wk. induction Wk as [x|x y z k He Hw IH]; [constructor|]. econstructor; [|exact IH].
  destruct He as [H|[[Hb [w [H1 [H2 [H3 H4]]]]]|[Hb [p [H1 [H2 [H3 H4]]]]]]].
  - left. apply HL. exact H.
  - right. left. split; [exact Hb|]. exists w. rewrite <- HL, <- HN. auto.
  - right. right. split; [exact Hb|]. exists p. rewrite <- HL, <- HN. auto.
Qed.

Lemma hl_state_any s n1 n2 : WF s ->
  WF (hl_state s n1 n2) /\ m_mf (hl_state s n1 n2) = m_mf s /\
  (forall x y, In (x, y) (links_of (hl_state s n1 n2)) <-> In (x, y) (links_of s)) /\
  (forall k, In k (map fst (m_all (hl_state s n1 n2))) <-> k = n1 \/ k = n2 \/ In k (map fst (m_all s))) /\
  (exists i, regd (hl_state s n1 n2) n1 i).
Proof.
  intros W. unfold hl_state.
  destruct (get_role mf s n1) as [[s1 u] uc] eqn:E1. cbn [fst]. destruct (get_role mf s1 n2) as [[s2 r] rc] eqn:E2. cbn [fst].
  destruct (get_role_WF Pany GRM_any _ _ _ _ _ W Logic.I E1) as [W1 [H1 [M1 Mono1]]].
  destruct (get_role_WF Pany GRM_any _ _ _ _ _ W1 Logic.I E2) as [W2 [H2 [M2 Mono2]]].
  split; [exact W2|]. split; [congruence|]. split; [|split].
  - intros x y. rewrite (get_role_links _ _ _ _ _ x y (proj1 W1) E2). apply (get_role_links _ _ _ _ _ x y (proj1 W) E1).
  - intros k. rewrite !keys_regd. split.
    + intros [j H]. apply (get_role_regd _ _ _ _ _ k j (proj1 W1) E2) in H. destruct H as [H|[_ [-> _]]]; [|auto].
      apply (get_role_regd _ _ _ _ _ k j (proj1 W) E1) in H. destruct H as [H|[_ [-> _]]]; [|auto]. right. right. eauto.
    + intros [->|[->|[j H]]]; [exists u; auto|exists r; auto|exists j; auto].
  - exists u. auto.
Qed.

(* HasLink(u, r) with (or without) a matching function = reachability within n edges, from u to a
   name that is r or matches r, in the graph of the stored links closed under pattern matching over
   the REGISTERED names (plus u and r themselves, registered for the duration of the call) *)
Theorem has_link_pattern_spec n s u r : WF s ->
  (snd (has_link mf n s u r) = true <->
   exists y k, k <= n /\
     pwalk (links_of s) (u :: r :: map fst (m_all s)) (m_mf s) u y k /\
     (y = r \/ (m_mf s = true /\ mf y r = true))).
Proof.
  intros W. rewrite (has_link_value Pany GRM_any n s u r W Logic.I).
  destruct (hl_state_any s u r W) as [W2 [M2 [L2 [N2 R2]]]]. unfold starget.
  assert (HN : forall a, In a (map fst (m_all (hl_state s u r))) <-> In a (u :: r :: map fst (m_all s))).
  { intros a. rewrite N2. cbn [In]. intuition. }
  split; intros [y [k [Hk [Hw Ht]]]]; exists y, k; (split; [exact Hk|split; [|exact Ht]]).
  - apply swalk_pwalk in Hw; [|exact W2]. rewrite M2 in Hw. eapply pwalk_equiv; [exact L2|exact HN|exact Hw].
  - apply pwalk_swalk; [exact W2|exact R2|]. rewrite M2.
    eapply pwalk_equiv; [intros a c; symmetry; apply L2|intros a; symmetry; apply HN|exact Hw].
Qed.

(* ---------- GetRoles / GetUsers with a matching function (membership) ---------- *)
Lemma pedge_equiv L N L' N' b x y : (forall a c, In (a, c) L <-> In (a, c) L') -> (forall a, In a N <-> In a N') ->
  pedge L N b x y -> pedge L' N' b x y.
Proof.
  intros HL HN [H|[[Hb [w [H1 [H2 [H3 H4]]]]]|[Hb [p [H1 [H2 [H3 H4]]]]]]].
  - left. apply HL. exact H.
  - right. left. split; [exact Hb|]. exists w. rewrite <- HL, <- HN. auto.
  - right. right. split; [exact Hb|]. exists p. rewrite <- HL, <- HN. auto.
Qed.

Lemma get_role_names s name s1 i c a : WFs s -> get_role mf s name = (s1, i, c) ->
  (In a (map fst (m_all s1)) <-> In a (name :: map fst (m_all s))).
Proof.
  intros W E. destruct (get_role_WFs _ _ _ _ _ W E) as [_ [Hi _]]. cbn [In]. rewrite !keys_regd. split.
  - intros [j H]. apply (get_role_regd _ _ _ _ _ a j W E) in H. destruct H as [H|[_ [-> _]]]; [right; eauto|auto].
  - intros [<-|[j H]]; [eauto|]. exists j. apply (get_role_regd _ _ _ _ _ a j W E). auto.
Qed.

(* GetRoles(u) lists exactly the one-step successors of u in the closure graph *)
Theorem get_roles_pattern_spec s u x : WF s ->
  (In x (snd (get_roles mf s u)) <-> pedge (links_of s) (u :: map fst (m_all s)) (m_mf s) u x).
Proof.
  intros W. unfold get_roles. destruct (get_role mf s u) as [[s1 i] c] eqn:E1. cbn [snd].
  destruct (get_role_WF Pany GRM_any _ _ _ _ _ W Logic.I E1) as [W1 [H1 [M1 _]]].
  destruct (ws_obj _ (proj1 W1) _ _ H1) as [o [G _]]. rewrite (obj_of_get _ _ _ G).
  unfold role_get_roles. rewrite nub_In, <- (sedge_iff _ _ _ _ x (proj1 W1) H1 G), (sedge_spec s1 u i x W1 H1), M1.
  split; apply pedge_equiv; intros.
  - apply (get_role_links _ _ _ _ _ _ _ (proj1 W) E1).
  - apply (get_role_names _ _ _ _ _ _ (proj1 W) E1).
  - symmetry. apply (get_role_links _ _ _ _ _ _ _ (proj1 W) E1).
  - symmetry. apply (get_role_names _ _ _ _ _ _ (proj1 W) E1).
Qed.

Lemma users_key_link s r i o x : WFs s -> regd s r i -> hget i (m_heap s) = Some o ->
  (In x (map fst (o_users o)) <-> In (x, r) (links_of s)).
Proof.
  intros W H G. rewrite (links_of_In _ _ _ W). split.
  - intros HI. apply in_map_iff in HI as [[x' j] [Ex HI]]. cbn [fst] in Ex. subst x'.
    destruct (ws_users _ W _ _ _ _ _ H G HI) as [R [oj [Gj Hj]]]. exists j, oj.
    split; [exact R|split; [exact Gj|eapply In_keys; eauto]].
  - intros [j [oj [R [Gj HI]]]]. apply in_map_iff in HI as [[r' i'] [Er HI]]. cbn [fst] in Er. subst r'.
    destruct (ws_roles _ W _ _ _ _ _ R Gj HI) as [R' [o' [G' H']]].
    assert (i' = i) by (eapply regd_fun; eauto). subst i'. rewrite G in G'. inversion G'. subst o'. eapply In_keys; eauto.
Qed.

(* the predecessors rangeUsers enumerates: a stored link into r, or a registered name matching a
   pattern that has r, or a member of a pattern that r matches *)
Definition uedge (L : list (string * string)) (N : list string) (b : bool) (r x : string) : Prop :=
  In (x, r) L \/
  (b = true /\ exists w, In (w, r) L /\ In x N /\ x <> w /\ mf x w = true) \/
  (b = true /\ exists p, In p N /\ p <> r /\ mf r p = true /\ In (x, p) L).
Lemma uedge_equiv L N L' N' b r x : (forall a c, In (a, c) L <-> In (a, c) L') -> (forall a, In a N <-> In a N') ->
  uedge L N b r x -> uedge L' N' b r x.
Proof.
  intros HL HN [H|[[Hb [w [H1 [H2 [H3 H4]]]]]|[Hb [p [H1 [H2 [H3 H4]]]]]]].
  - left. apply HL. exact H.
  - right. left. split; [exact Hb|]. exists w. rewrite <- HL, <- HN. auto.
  - right. right. split; [exact Hb|]. exists p. rewrite <- HL, <- HN. auto.
Qed.

Lemma range_users_spec s r i o x : WF s -> regd s r i -> hget i (m_heap s) = Some o ->
  (In x (map fst (range_users (m_heap s) o)) <-> uedge (links_of s) (map fst (m_all s)) (m_mf s) r x).
Proof.
  intros [W Wm] H G. unfold range_users, uedge. rewrite !map_app, !in_app_iff.
  rewrite (users_key_link _ _ _ _ x W H G).
  assert (E2 : In x (map fst (flat_map (fun p => o_matched (obj_of (m_heap s) (snd p))) (o_users o))) <->
               (m_mf s = true /\ exists w, In (w, r) (links_of s) /\ In x (map fst (m_all s)) /\ x <> w /\ mf x w = true)).
  { rewrite in_map_iff. split.
    - intros [[x' v] [Ex HI]]. cbn [fst] in Ex. subst x'. apply in_flat_map in HI as [[w j1] [H1 H2]]. cbn [snd] in H2.
      destruct (ws_users _ W _ _ _ _ _ H G H1) as [R1 _]. destruct (ws_obj _ W _ _ R1) as [o1 [G1 _]].
      rewrite (obj_of_get _ _ _ G1) in H2. destruct (Wm _ _ _ R1 G1) as [_ [_ [M _]]]. apply M in H2 as [Rx [Nx [Hm F]]].
      split; [exact Hm|]. exists w. split; [apply (users_key_link _ _ _ _ w W H G); eapply In_keys; eauto|].
      split; [apply keys_regd; eauto|auto].
    - intros [Hm [w [Hl [Hx [Nx F]]]]]. apply (users_key_link _ _ _ _ w W H G) in Hl.
      apply in_map_iff in Hl as [[w' j1] [Ew H1]]. cbn [fst] in Ew. subst w'.
      destruct (ws_users _ W _ _ _ _ _ H G H1) as [R1 _]. destruct (ws_obj _ W _ _ R1) as [o1 [G1 _]].
      apply keys_regd in Hx as [v Rx]. exists (x, v). split; [reflexivity|]. apply in_flat_map. exists (w, j1).
      split; [exact H1|]. cbn [snd]. rewrite (obj_of_get _ _ _ G1). destruct (Wm _ _ _ R1 G1) as [_ [_ [M _]]]. apply M. auto. }
  assert (E3 : In x (map fst (flat_map (fun p => o_users (obj_of (m_heap s) (snd p))) (o_matchedBy o))) <->
               (m_mf s = true /\ exists p, In p (map fst (m_all s)) /\ p <> r /\ mf r p = true /\ In (x, p) (links_of s))).
  { destruct (Wm _ _ _ H G) as [_ [_ [_ M]]]. rewrite in_map_iff. split.
    - intros [[x' v] [Ex HI]]. cbn [fst] in Ex. subst x'. apply in_flat_map in HI as [[p j1] [H1 H2]]. cbn [snd] in H2.
      apply M in H1 as [R1 [Np [Hm F]]]. destruct (ws_obj _ W _ _ R1) as [o1 [G1 _]].
      rewrite (obj_of_get _ _ _ G1) in H2. split; [exact Hm|]. exists p. split; [apply keys_regd; eauto|].
      split; [exact Np|split; [exact F|]]. apply (users_key_link _ _ _ _ x W R1 G1). eapply In_keys; eauto.
    - intros [Hm [p [Hp [Np [F Hl]]]]]. apply keys_regd in Hp as [j1 R1]. destruct (ws_obj _ W _ _ R1) as [o1 [G1 _]].
      apply (users_key_link _ _ _ _ x W R1 G1) in Hl. apply in_map_iff in Hl as [[x' v] [Ex H2]]. cbn [fst] in Ex. subst x'.
      exists (x, v). split; [reflexivity|]. apply in_flat_map. exists (p, j1). split; [apply M; auto|].
      cbn [snd]. rewrite (obj_of_get _ _ _ G1). exact H2. }
  rewrite E2, E3. tauto.
Qed.

(* GetUsers(r) lists (possibly with repetitions) exactly the one-step predecessors of r *)
Theorem get_users_pattern_spec s r x : WF s ->
  (In x (snd (get_users mf s r)) <-> uedge (links_of s) (r :: map fst (m_all s)) (m_mf s) r x).
Proof.
  intros W. unfold get_users. destruct (get_role mf s r) as [[s1 i] c] eqn:E1. cbn [snd].
  destruct (get_role_WF Pany GRM_any _ _ _ _ _ W Logic.I E1) as [W1 [H1 [M1 _]]].
  destruct (ws_obj _ (proj1 W1) _ _ H1) as [o [G _]]. rewrite (obj_of_get _ _ _ G).
  unfold role_get_users. rewrite (range_users_spec s1 r i o x W1 H1 G), M1.
  split; apply uedge_equiv; intros.
  - apply (get_role_links _ _ _ _ _ _ _ (proj1 W) E1).
  - apply (get_role_names _ _ _ _ _ _ (proj1 W) E1).
  - symmetry. apply (get_role_links _ _ _ _ _ _ _ (proj1 W) E1).
  - symmetry. apply (get_role_names _ _ _ _ _ _ (proj1 W) E1).
Qed.

(* ---------- when the answer is a function of the stored links alone ---------- *)
Definition link_names (L : list (string * string)) : list string := flat_map (fun l => [fst l; snd l]) L.
Lemma link_names_In L k : In k (link_names L) <-> exists x y, In (x, y) L /\ (k = x \/ k = y).
Proof.
  unfold link_names. rewrite in_flat_map. split.
  - intros [[x y] [H HI]]. cbn [fst snd In] in HI. exists x, y. split; [exact H|].
    destruct HI as [E|[E|[]]]; [left|right]; congruence.
  - intros [x [y [H [->| ->]]]]; exists (x, y); cbn [fst snd In]; auto.
Qed.

(* no lingering names: every registered name is an endpoint of a stored link *)
Definition tight (s : rmgr) : Prop := forall k, In k (map fst (m_all s)) -> In k (link_names (links_of s)).

Lemma link_ends_regd s x y : WFs s -> In (x, y) (links_of s) -> In x (map fst (m_all s)) /\ In y (map fst (m_all s)).
Proof.
  intros W H. apply (links_of_In _ _ _ W) in H as [i [o [R [G HI]]]]. split; [eapply In_keys; eauto|].
  apply in_map_iff in HI as [[y' j] [E HI]]. cbn [fst] in E. subst y'.
  destruct (ws_roles _ W _ _ _ _ _ R G HI) as [R' _]. eapply In_keys; eauto.
Qed.

Lemma tight_names s a : WF s -> tight s -> (In a (map fst (m_all s)) <-> In a (link_names (links_of s))).
Proof.
  intros W T. split; [apply T|]. intros H. apply link_names_In in H as [x [y [H [->| ->]]]];
    apply (link_ends_regd _ _ _ (proj1 W) H).
Qed.

Definition nodel_rop (op : rop) : Prop := match op with RDel _ _ => False | _ => True end.

Lemma keys_of_regd_iff s s' : (forall k j, regd s' k j <-> regd s k j) ->
  forall k, In k (map fst (m_all s')) <-> In k (map fst (m_all s)).
Proof. intros H k. rewrite !keys_regd. split; intros [j Hj]; exists j; apply H; exact Hj. Qed.

Lemma tight_transport s s' : tight s ->
  (forall k, In k (map fst (m_all s')) <-> In k (map fst (m_all s))) ->
  (forall x y, In (x, y) (links_of s') <-> In (x, y) (links_of s)) -> tight s'.
Proof.
  intros T HN HL k H. apply HN in H. apply T in H. apply link_names_In in H as [x [y [H Hk]]].
  apply link_names_In. exists x, y. split; [apply HL; exact H|exact Hk].
Qed.

Lemma rstep_tight n s op : WF s -> tight s -> nodel_rop op -> tight (fst (rstep mf n s op)).
Proof.
  intros W T Hop. destruct op as [u r|u r|u r|u|u| |]; cbn [rstep nodel_rop] in *.
  - destruct (add_link_WF Pany GRM_any s u r W Logic.I) as [_ [_ [L1 N1]]]. intros k H. apply N1 in H.
    apply link_names_In. destruct H as [->|[->|H]].
    + exists u, r. split; [apply L1; auto|auto].
    + exists u, r. split; [apply L1; auto|auto].
    + apply T in H. apply link_names_In in H as [x [y [H Hk]]]. exists x, y. split; [apply L1; auto|exact Hk].
  - destruct Hop.
  - destruct (has_link mf n s u r) as [s' b] eqn:E. cbn [fst].
    destruct (has_link_WF Pany GRM_any URM_any n s u r W Logic.I) as [_ [_ [R1 L1]]]. rewrite E in *. cbn [fst] in *.
    eapply tight_transport; [exact T|apply keys_of_regd_iff; exact R1|exact L1].
  - destruct (get_roles mf s u) as [s' b] eqn:E. cbn [fst].
    destruct (get_roles_WF Pany GRM_any URM_any s u W Logic.I) as [_ [_ [R1 L1]]]. rewrite E in *. cbn [fst] in *.
    eapply tight_transport; [exact T|apply keys_of_regd_iff; exact R1|exact L1].
  - destruct (get_users mf s u) as [s' b] eqn:E. cbn [fst].
    destruct (get_users_WF Pany GRM_any URM_any s u W Logic.I) as [_ [_ [R1 L1]]]. rewrite E in *. cbn [fst] in *.
    eapply tight_transport; [exact T|apply keys_of_regd_iff; exact R1|exact L1].
  - intros k [].
  - destruct (rm_add_matching_func_WF s W) as [_ [_ [L1 N1]]]. intros k H. apply N1 in H as [x [y [H Hk]]].
    apply link_names_In. exists x, y. split; [apply L1; exact H|exact Hk].
Qed.

(* every history WITHOUT DeleteLink (AddLink, queries, Clear, AddMatchingFunc at any point) keeps the
   structure free of lingering names; AddMatchingFunc (rebuild) re-establishes it after any history *)
Theorem rrun_tight n ops : forall s, WF s -> tight s -> Forall nodel_rop ops -> tight (rrun mf n s ops).
Proof.
  induction ops as [|op t IH]; intros s W T HF; cbn [rrun fold_left]; [exact T|].
  inversion HF as [|x l Hop Ht]. subst. apply IH; [apply rstep_WF; exact W|apply rstep_tight; assumption|exact Ht].
Qed.
Theorem rebuild_tight s : WF s -> tight (rm_add_matching_func mf s).
Proof.
  intros W. destruct (rm_add_matching_func_WF s W) as [_ [_ [L1 N1]]]. intros k H. apply N1 in H as [x [y [H Hk]]].
  apply link_names_In. exists x, y. split; [apply L1; exact H|exact Hk].
Qed.

(* in a structure without lingering names HasLink is determined by the SET of stored links *)
Theorem has_link_tight_spec n s u r : WF s -> tight s ->
  (snd (has_link mf n s u r) = true <->
   exists y k, k <= n /\
     pwalk (links_of s) (u :: r :: link_names (links_of s)) (m_mf s) u y k /\
     (y = r \/ (m_mf s = true /\ mf y r = true))).
Proof.
  intros W T. rewrite (has_link_pattern_spec n s u r W).
  assert (HN : forall a, In a (u :: r :: map fst (m_all s)) <-> In a (u :: r :: link_names (links_of s))).
  { intros a. cbn [In]. rewrite (tight_names s a W T). tauto. }
  split; intros [y [k [Hk [Hw Ht]]]]; exists y, k; (split; [exact Hk|split; [|exact Ht]]).
  - eapply pwalk_equiv; [intros; apply iff_refl|exact HN|exact Hw].
  - eapply pwalk_equiv; [intros; apply iff_refl|intros a; symmetry; apply HN|exact Hw].
Qed.

Theorem has_link_links_only n s1 s2 u r : WF s1 -> WF s2 -> tight s1 -> tight s2 -> m_mf s1 = m_mf s2 ->
  (forall x y, In (x, y) (links_of s1) <-> In (x, y) (links_of s2)) ->
  snd (has_link mf n s1 u r) = snd (has_link mf n s2 u r).
Proof.
  intros W1 W2 T1 T2 Hm HL. apply bool_eq_iff.
  rewrite (has_link_tight_spec n s1 u r W1 T1), (has_link_tight_spec n s2 u r W2 T2). rewrite Hm.
  assert (HN : forall a, In a (u :: r :: link_names (links_of s1)) <-> In a (u :: r :: link_names (links_of s2))).
  { intros a. cbn [In]. rewrite !link_names_In. split; (intros [H|[H|[x [y [H Hk]]]]]; [auto|auto|]);
      right; right; exists x, y; (split; [apply HL; exact H|exact Hk]). }
  split; intros [y [k [Hk [Hw Ht]]]]; exists y, k; (split; [exact Hk|split; [|exact Ht]]).
  - eapply pwalk_equiv; [exact HL|exact HN|exact Hw].
  - eapply pwalk_equiv; [intros a c; symmetry; apply HL|intros a; symmetry; apply HN|exact Hw].
Qed.



Section DomAll.
Variable dmf : string -> string -> bool.
(* ================= DomainManager over ALL histories (matching functions included) =================
   every per-domain manager stays well-formed and carries the role matching flag of its owner *)

Record DWF (dm : dmgr) : Prop := mkDWF {
  dw_nodup : NoDup (map fst (d_rms dm));
  dw_rm : forall d rm, In (d, rm) (d_rms dm) -> WF rm /\ m_mf rm = d_mf dm }.

Lemma DWF_new : DWF new_dm.
Proof. constructor; cbn; [constructor|intros d rm []]. Qed.

Lemma DWF_upd dm d rm : DWF dm -> WF rm -> m_mf rm = d_mf dm -> DWF (set_rms dm (mput d rm (d_rms dm))).
Proof.
  intros D W M. constructor; cbn [set_rms d_rms d_mf].
  - apply mput_nodup. apply D.
  - intros d' rm' H. apply mput_In_weak in H. destruct H as [[_ E]|H].
    + subst rm'. auto.
    + apply (dw_rm _ D _ _ H).
Qed.

Lemma copy_from_WF s other : WF s -> WF (copy_from mf s other) /\ m_mf (copy_from mf s other) = m_mf s.
Proof. intros W. destruct (add_links_WF (links_of other) s W) as [W' [M' _]]. auto. Qed.

Lemma fold_copy_WF (cond : string * rmgr -> bool) l : forall acc, WF acc ->
  WF (fold_left (fun a p => if cond p then copy_from mf a (snd p) else a) l acc) /\
  m_mf (fold_left (fun a p => if cond p then copy_from mf a (snd p) else a) l acc) = m_mf acc.
Proof.
  induction l as [|p t IH]; intros acc W; cbn [fold_left]; [auto|]. destruct (cond p).
  - destruct (copy_from_WF acc (snd p) W) as [W' M']. destruct (IH _ W') as [W2 M2]. split; [exact W2|congruence].
  - apply IH. exact W.
Qed.

Lemma get_rm_DWF dm d store dm1 rm : DWF dm -> get_rm mf dmf dm d store = (dm1, rm) ->
  DWF dm1 /\ WF rm /\ m_mf rm = d_mf dm /\ d_mf dm1 = d_mf dm /\ d_dmf dm1 = d_dmf dm.
Proof.
  intros D E. unfold get_rm in E. destruct (lookup d (d_rms dm)) as [rm0|] eqn:L.
  - inversion E. subst. apply lookup_In in L. destruct (dw_rm _ D _ _ L). auto.
  - set (rm0 := new_rm (d_mf dm)) in *.
    set (rms1 := if store then mput d rm0 (d_rms dm) else d_rms dm) in *.
    set (rm1 := if d_dmf dm then fold_left (fun acc p => if negb (String.eqb d (fst p)) && dm_match dmf dm d (fst p)
                                         then copy_from mf acc (snd p) else acc) rms1 rm0 else rm0) in *.
    assert (W1 : WF rm1 /\ m_mf rm1 = d_mf dm).
    { unfold rm1. destruct (d_dmf dm); [|split; [apply WF_new|reflexivity]].
      destruct (fold_copy_WF (fun p => negb (String.eqb d (fst p)) && dm_match dmf dm d (fst p)) rms1 rm0 (WF_new _)) as [Wf Mf].
      split; [exact Wf|exact Mf]. }
    inversion E as [[Edm Erm]]. subst rm. clear E. subst dm1. destruct W1 as [W1 M1].
    split; [|split; [exact W1|split; [exact M1|destruct store; auto]]].
    destruct store; [|exact D].
    assert (D1 : DWF (set_rms dm rms1)) by (apply DWF_upd; [exact D|apply WF_new|reflexivity]).
    apply (DWF_upd (set_rms dm rms1) d rm1 D1 W1 M1).
Qed.

Lemma range_affected_DWF dm d fn : DWF dm ->
  (forall rm, WF rm -> WF (fn rm) /\ m_mf (fn rm) = m_mf rm) -> DWF (range_affected dmf dm d fn).
Proof.
  intros D Hf. unfold range_affected. destruct (d_dmf dm); [|exact D].
  constructor; cbn [set_rms d_rms d_mf].
  - rewrite map_map. erewrite map_ext; [apply (dw_nodup _ D)|]. intros [d' rm']. cbn [fst]. destruct (_ && _); reflexivity.
  - intros d' rm' H. apply in_map_iff in H as [[d0 rm0] [E H]]. cbn [fst snd] in E.
    destruct (dw_rm _ D _ _ H) as [W0 M0]. destruct (negb (String.eqb d d0) && dm_match dmf dm d0 d); inversion E; subst.
    + destruct (Hf _ W0) as [W' M']. split; [exact W'|congruence].
    + auto.
Qed.

Lemma range_affected_flags dm d fn : d_mf (range_affected dmf dm d fn) = d_mf dm /\ d_dmf (range_affected dmf dm d fn) = d_dmf dm.
Proof. unfold range_affected. destruct (d_dmf dm) eqn:E; cbn; auto. Qed.

Lemma dm_add_link_DWF dm u r d : DWF dm ->
  DWF (dm_add_link mf dmf dm u r d) /\ d_mf (dm_add_link mf dmf dm u r d) = d_mf dm /\ d_dmf (dm_add_link mf dmf dm u r d) = d_dmf dm.
Proof.
  intros D. unfold dm_add_link. destruct (get_rm mf dmf dm d true) as [dm1 rm] eqn:E.
  destruct (get_rm_DWF _ _ _ _ _ D E) as [D1 [W [M [F1 F2]]]].
  destruct (add_link_WF Pany GRM_any rm u r W Logic.I) as [W' [M' _]].
  assert (D2 : DWF (set_rms dm1 (mput d (add_link mf rm u r) (d_rms dm1)))) by (apply DWF_upd; [exact D1|exact W'|congruence]).
  split; [|destruct (range_affected_flags (set_rms dm1 (mput d (add_link mf rm u r) (d_rms dm1))) d (fun rm2 => add_link mf rm2 u r)) as [A B];
            rewrite A, B; cbn [set_rms d_mf d_dmf]; auto].
  apply range_affected_DWF; [exact D2|]. intros rm2 W2.
  destruct (add_link_WF Pany GRM_any rm2 u r W2 Logic.I) as [Wa [Ma _]]. auto.
Qed.

Lemma dm_delete_link_DWF dm u r d : DWF dm ->
  DWF (dm_delete_link mf dmf dm u r d) /\ d_mf (dm_delete_link mf dmf dm u r d) = d_mf dm /\ d_dmf (dm_delete_link mf dmf dm u r d) = d_dmf dm.
Proof.
  intros D. unfold dm_delete_link. destruct (get_rm mf dmf dm d true) as [dm1 rm] eqn:E.
  destruct (get_rm_DWF _ _ _ _ _ D E) as [D1 [W [M [F1 F2]]]].
  destruct (delete_link_WF Pany GRM_any rm u r W Logic.I) as [W' [M' _]].
  assert (D2 : DWF (set_rms dm1 (mput d (delete_link mf rm u r) (d_rms dm1)))) by (apply DWF_upd; [exact D1|exact W'|congruence]).
  split; [|destruct (range_affected_flags (set_rms dm1 (mput d (delete_link mf rm u r) (d_rms dm1))) d (fun rm2 => delete_link mf rm2 u r)) as [A B];
            rewrite A, B; cbn [set_rms d_mf d_dmf]; auto].
  apply range_affected_DWF; [exact D2|]. intros rm2 W2.
  destruct (delete_link_WF Pany GRM_any rm2 u r W2 Logic.I) as [Wa [Ma _]]. auto.
Qed.

Lemma dm_query_DWF {A} dm d (q : rmgr -> rmgr * A) : DWF dm ->
  (forall rm, WF rm -> WF (fst (q rm)) /\ m_mf (fst (q rm)) = m_mf rm) ->
  DWF (fst (dm_query mf dmf dm d q)) /\ d_mf (fst (dm_query mf dmf dm d q)) = d_mf dm /\ d_dmf (fst (dm_query mf dmf dm d q)) = d_dmf dm.
Proof.
  intros D Hq. unfold dm_query. destruct (get_rm mf dmf dm d false) as [dm1 rm] eqn:E.
  destruct (get_rm_DWF _ _ _ _ _ D E) as [D1 [W [M [F1 F2]]]].
  destruct (q rm) as [rm' a] eqn:Eq. destruct (Hq rm W) as [W' M']. rewrite Eq in *. cbn [fst] in *.
  destruct (lookup d (d_rms dm1)); cbn [fst set_rms d_mf d_dmf]; [|auto].
  split; [apply DWF_upd; [exact D1|exact W'|congruence]|auto].
Qed.

Lemma fold_dm_add_DWF d ls : forall dm, DWF dm ->
  let r := fold_left (fun acc l => dm_add_link mf dmf acc (fst l) (snd l) d) ls dm in
  DWF r /\ d_mf r = d_mf dm /\ d_dmf r = d_dmf dm.
Proof.
  induction ls as [|[a b] t IH]; intros dm D; cbn [fold_left fst snd]; [auto|].
  destruct (dm_add_link_DWF dm a b d D) as [D1 [A1 B1]]. destruct (IH _ D1) as [D2 [A2 B2]].
  cbv zeta in *. split; [exact D2|]. split; congruence.
Qed.

Lemma dm_rebuild_DWF dm : DWF (dm_rebuild mf dmf dm) /\ d_mf (dm_rebuild mf dmf dm) = d_mf dm /\ d_dmf (dm_rebuild mf dmf dm) = d_dmf dm.
Proof.
  unfold dm_rebuild.
  assert (G : forall l acc, DWF acc ->
     let r := fold_left (fun acc p => fold_left (fun acc2 l => dm_add_link mf dmf acc2 (fst l) (snd l) (fst p)) (links_of (snd p)) acc) l acc in
     DWF r /\ d_mf r = d_mf acc /\ d_dmf r = d_dmf acc).
  { induction l as [|p t IH]; intros acc D; cbn [fold_left]; [auto|].
    destruct (fold_dm_add_DWF (fst p) (links_of (snd p)) acc D) as [D1 [A1 B1]]. destruct (IH _ D1) as [D2 [A2 B2]].
    cbv zeta in *. split; [exact D2|]. split; congruence. }
  apply (G (d_rms dm) (dm_clear dm)). constructor; cbn; [constructor|tauto].
Qed.

Lemma dstep_DWF n dm op : DWF dm -> DWF (fst (dstep mf dmf n dm op)).
Proof.
  intros D. destruct op as [u r d|u r d|u r d|u d|u d| | |]; cbn [dstep fst].
  - apply dm_add_link_DWF. exact D.
  - apply dm_delete_link_DWF. exact D.
  - destruct (dm_has_link mf dmf n dm u r d) as [dm' b] eqn:E. cbn [fst].
    assert (H : DWF (fst (dm_query mf dmf dm d (fun rm => has_link mf n rm u r)))).
    { apply dm_query_DWF; [exact D|]. intros rm W.
      destruct (has_link_WF Pany GRM_any URM_any n rm u r W Logic.I) as [W' [M' _]]. auto. }
    unfold dm_has_link in E. rewrite E in H. exact H.
  - destruct (dm_get_roles mf dmf dm u d) as [dm' b] eqn:E. cbn [fst].
    assert (H : DWF (fst (dm_query mf dmf dm d (fun rm => get_roles mf rm u)))).
    { apply dm_query_DWF; [exact D|]. intros rm W.
      destruct (get_roles_WF Pany GRM_any URM_any rm u W Logic.I) as [W' [M' _]]. auto. }
    unfold dm_get_roles in E. rewrite E in H. exact H.
  - destruct (dm_get_users mf dmf dm u d) as [dm' b] eqn:E. cbn [fst].
    assert (H : DWF (fst (dm_query mf dmf dm d (fun rm => get_users mf rm u)))).
    { apply dm_query_DWF; [exact D|]. intros rm W.
      destruct (get_users_WF Pany GRM_any URM_any rm u W Logic.I) as [W' [M' _]]. auto. }
    unfold dm_get_users in E. rewrite E in H. exact H.
  - constructor; cbn; [constructor|tauto].
  - unfold dm_add_matching_func. constructor; cbn [d_rms d_mf].
    + rewrite map_map. cbn [fst]. apply (dw_nodup _ D).
    + intros d rm H. apply in_map_iff in H as [[d0 rm0] [E H]]. cbn [fst snd] in E. inversion E. subst.
      destruct (dw_rm _ D _ _ H) as [W0 _]. destruct (rm_add_matching_func_WF rm0 W0) as [W' [M' _]]. auto.
  - unfold dm_add_domain_matching_func. apply dm_rebuild_DWF.
Qed.

Theorem drun_DWF n ops : forall dm, DWF dm -> DWF (drun mf dmf n dm ops).
Proof.
  induction ops as [|op t IH]; intros dm D; cbn [drun fold_left]; [exact D|]. apply IH. apply dstep_DWF. exact D.
Qed.
End DomAll.
End WithMatching.

(* ================= concrete witnesses (computed) ================= *)
Local Open Scope string_scope.

(* util.KeyMatch as a matching function: the pattern up to its first star is a prefix *)
Fixpoint kmatch (s p : string) : bool :=
  match p with
  | EmptyString => match s with EmptyString => true | _ => false end
  | String c p' => if Ascii.eqb c "*"%char then true
                   else match s with String d s' => Ascii.eqb c d && kmatch s' p' | EmptyString => false end
  end.
(* a finite relation as a matching function: n matches the patterns p1 and p2 (the shape of the
   regular expressions in finding F06) *)
Definition mfw (a b : string) : bool := String.eqb a "n" && (String.eqb b "p1" || String.eqb b "p2").

(* F06 shape.  With a role matching function the answers are NOT a function of the stored links:
   AddLink(x, n) followed by DeleteLink(x, n) leaves the links as they were, but the names x and n
   stay registered in allRoles, n is matched against the patterns, and u now reaches admin
   (u -> p1, n matches p1, n matches p2, p2 -> admin).  A rebuild (AddMatchingFunc) forgets them. *)
Definition f06_ops : list rop := [RAddMF; RAdd "u" "p1"; RAdd "p2" "admin"; RAdd "x" "n"; RDel "x" "n"].
Lemma lingering_names_refuted :
  let s := rrun mfw 10 (new_rm false) f06_ops in
  let s' := rm_add_matching_func mfw s in
  links_of s = links_of s' /\
  snd (has_link mfw 10 s "u" "admin") = true /\ snd (has_link mfw 10 s' "u" "admin") = false /\
  map fst (m_all s) = ["u"; "p1"; "p2"; "admin"; "x"; "n"] /\ map fst (m_all s') = ["u"; "p1"; "p2"; "admin"].
Proof. cbv zeta. repeat split; vm_compute; reflexivity. Qed.

(* hence the guard `tight` (no lingering names) of has_link_links_only cannot be dropped *)
Lemma has_link_links_only_refuted : exists s1 s2,
  WF mfw s1 /\ WF mfw s2 /\ m_mf s1 = m_mf s2 /\ links_of s1 = links_of s2 /\
  snd (has_link mfw 10 s1 "u" "admin") <> snd (has_link mfw 10 s2 "u" "admin").
Proof.
  exists (rrun mfw 10 (new_rm false) f06_ops), (rm_add_matching_func mfw (rrun mfw 10 (new_rm false) f06_ops)).
  split; [apply rrun_WF_any; apply WF_new|]. split; [apply rm_add_matching_func_WF; apply rrun_WF_any; apply WF_new|].
  destruct lingering_names_refuted as [H1 [H2 [H3 _]]]. cbv zeta in *.
  split; [vm_compute; reflexivity|]. split; [exact H1|]. rewrite H2, H3. discriminate.
Qed.

(* F05 shape.  With a domain matching function DomainManager does NOT refine the domain-tagged link
   set: [alice admin *] and [alice admin d1] are added, [alice admin *] is removed; the abstract
   listing still holds (alice, admin, d1) but the structure lost the link in d1, because
   DeleteLink ranges over every manager whose domain matches the pattern. *)
Definition f05_ops : list dop := [DAddDMF; DAdd "alice" "admin" "*"; DAdd "alice" "admin" "d1"; DDel "alice" "admin" "*"].
Lemma domain_pattern_delete_refuted :
  adrun 10 [] f05_ops = [("alice", "admin", "d1")] /\
  snd (dm_has_link no_mf kmatch 10 (drun no_mf kmatch 10 new_dm f05_ops) "alice" "admin" "d1") = false /\
  Roles.has_link (adrun 10 [] f05_ops) "alice" "admin" "d1" = true.
Proof. repeat split; vm_compute; reflexivity. Qed.

(* the refinement theorems need their guard: a matching function breaks them even for plain names *)
Lemma pattern_not_link_set_refuted :
  let s := rrun kmatch 10 (new_rm false) [RAddMF; RAdd "u" "/a/*"; RAdd "/a/*" "r"] in
  snd (has_link kmatch 10 s "/a/7" "r") = true /\
  Roles.has_link (abs_rm "" s) "/a/7" "r" "" = false.
Proof. cbv zeta. split; vm_compute; reflexivity. Qed.

(* stale pointers are representable.  If removeRole is applied to a subject that still has members
   (what a "drop the entry when it inherits nothing" DeleteLink would do), the member u keeps the id
   of the OLD object X; a later AddLink(X, Y) creates a NEW object, and u does not reach Y although
   u -> X and X -> Y are both stored; GetUsers(X) is empty.  Such a state violates WFs. *)
Lemma stale_pointer_shape :
  let s3 := rrun no_mf 10 (new_rm false) [RAdd "u" "X"; RAdd "X" "P"; RDel "X" "P"] in
  let bad := add_link no_mf (remove_role s3 "X") "X" "Y" in
  let good := add_link no_mf s3 "X" "Y" in
  links_of bad = [("u", "X"); ("X", "Y")] /\ links_of good = [("u", "X"); ("X", "Y")] /\
  snd (has_link no_mf 10 bad "u" "Y") = false /\ snd (has_link no_mf 10 good "u" "Y") = true /\
  snd (get_users no_mf bad "X") = [] /\ snd (get_users no_mf good "X") = ["u"].
Proof. cbv zeta. repeat split; vm_compute; reflexivity. Qed.

(* non-vacuity: pattern reachability in action (KeyMatch) *)
Example pattern_example :
  let s := rrun kmatch 10 (new_rm false) [RAddMF; RAdd "u" "/a/*"; RAdd "/a/*" "r"] in
  snd (has_link kmatch 10 s "u" "/a/1") = true /\ snd (has_link kmatch 10 s "/a/7" "r") = true /\
  snd (has_link kmatch 10 s "/b/7" "r") = false /\ snd (get_roles kmatch s "/a/1") = ["r"].
Proof. cbv zeta. repeat split; vm_compute; reflexivity. Qed.

(* non-vacuity: a history with a cycle, a self link, a deletion, unknown names and Clear *)
Example plain_example :
  let ops := [RAdd "a" "b"; RAdd "b" "c"; RAdd "c" "a"; RAdd "a" "a"; RHas "z" "a"; RDel "b" "c"; RUsers "zz"] in
  Forall plain_rop ops /\
  snd (has_link no_mf 10 (rrun no_mf 10 (new_rm false) ops) "c" "b") = true /\
  snd (has_link no_mf 10 (rrun no_mf 10 (new_rm false) ops) "a" "c") = false /\
  arun 10 "" [] ops = [("a", "b", ""); ("c", "a", ""); ("a", "a", "")].
Proof. cbv zeta. split; [repeat constructor|]. repeat split; vm_compute; reflexivity. Qed.
