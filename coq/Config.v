(* Config.v — executable model of how casbin reads a model text:
     config/config.go   parseBuffer / write / AddConfig / get   (the line machine)
     bufio.ReadLine     as used by parseBuffer after the long-line fix: whole physical lines
     model/model.go     loadModelFromConfig / loadSection / loadAssertion / AddDef / getParamsToken
     util/util.go       EscapeAssertion / RemoveComments
   plus the specification side: abstract documents, layouts, the renderer.
   Definitions only; proofs are in ConfigProofs.v.

   Texts are byte strings.  Inside the model a text is a `list ascii` (one ascii = one byte);
   `parse_string` / `load_string` are the entry points on Coq `string`s.

   White space: Go's bytes.TrimSpace / strings.TrimSpace are Unicode aware; this model trims the
   six ASCII white-space bytes only (space \t \n \v \f \r).  The two agree on every text in
   which no UTF-8 encoding of a non-ASCII Unicode space (U+0085, U+00A0, U+1680, U+2000-200A,
   U+2028/9, U+202F, U+205F, U+3000) occurs; the correspondence check compares only such texts. *)
From Coq Require Import List Ascii String Bool Arith NArith.
Import ListNotations.

Notation str := (list ascii) (only parsing).

(* String literals are turned into byte lists at definition time (`Eval compute`), so that the
   extracted model does not depend on Coq's String module. *)
Definition lit (x : string) : list ascii := list_ascii_of_string x.

Definition LF : ascii := "010"%char.
Definition CR : ascii := "013"%char.
Definition SP : ascii := " "%char.

Fixpoint str_eqb (a b : str) : bool :=
  match a, b with
  | [], [] => true
  | x :: a', y :: b' => Ascii.eqb x y && str_eqb a' b'
  | _, _ => false
  end.

Definition is_nil (x : str) : bool := match x with [] => true | _ => false end.

(* ------------------------------------------------------------------------------------------ *)
(** * TrimSpace (ASCII) *)

Definition is_space (c : ascii) : bool :=
  Ascii.eqb c SP || Ascii.eqb c "009" || Ascii.eqb c LF || Ascii.eqb c "011"
  || Ascii.eqb c "012" || Ascii.eqb c CR.

Fixpoint trim_left (l : str) : str :=
  match l with
  | [] => []
  | c :: t => if is_space c then trim_left t else l
  end.

(* List.rev of the standard library is quadratic; rev_append is the same function (rev_alt) *)
Definition frev (l : str) : str := rev_append l [].

Definition trim_right (l : str) : str := frev (trim_left (frev l)).

(* bytes.TrimSpace: leading white space first, then trailing *)
Definition trim (l : str) : str := trim_right (trim_left l).

(* ------------------------------------------------------------------------------------------ *)
(** * Physical lines: what the ReadLine loop of parseBuffer hands to the line machine *)

(* bufio.Reader.ReadLine returns the bytes up to the next "\n", without the "\n" and without one
   "\r" directly in front of it; a last line without terminator is returned as it is, and an
   empty rest is EOF.  Since the long-line fix parseBuffer glues the chunks of a line that is
   longer than the 4096-byte reader buffer together again, so a physical line is whole however
   long it is.  (Before that fix this function would have had to cut every line into 4096-byte
   pieces: see C08 long_line examples.) *)
Definition cons_first (c : ascii) (ls : list str) : list str :=
  match ls with
  | [] => [[c]]
  | l :: r => (c :: l) :: r
  end.

Fixpoint phys_lines (t : str) : list str :=
  match t with
  | [] => []
  | c :: t' =>
      if Ascii.eqb c LF then [] :: phys_lines t'
      else match t' with
           | [] => [[c]]
           | d :: t'' =>
               if Ascii.eqb c CR && Ascii.eqb d LF then [] :: phys_lines t''
               else cons_first c (phys_lines t')
           end
  end.

(* ------------------------------------------------------------------------------------------ *)
(** * The line machine of parseBuffer *)

Definition starts_with (c : ascii) (l : str) : bool :=
  match l with x :: _ => Ascii.eqb x c | [] => false end.
Definition ends_with (c : ascii) (l : str) : bool := starts_with c (frev l).

Definition is_cmt (c : ascii) : bool := Ascii.eqb c "#" || Ascii.eqb c ";".

(* case bytes.Equal(line, []byte{}), HasPrefix(line, ";"), HasPrefix(line, "#") *)
Definition is_skip (l : str) : bool :=
  match l with [] => true | c :: _ => is_cmt c end.

(* case HasPrefix(line, "[") && HasSuffix(line, "]") *)
Definition is_header (l : str) : bool := starts_with "[" l && ends_with "]" l.

(* line[1 : len(line)-1] *)
Definition inner (l : str) : str := removelast (tl l).

(* for i, value := range p { if value == '#' || value == ';' { end = i; break } };  p[:end] *)
Fixpoint cut_comment (l : str) : str :=
  match l with
  | [] => []
  | c :: t => if is_cmt c then [] else c :: cut_comment t
  end.

(* bytes.SplitN(b, "=", 2): None when there is no '=' *)
Fixpoint split_eq (l : str) : option (str * str) :=
  match l with
  | [] => None
  | c :: t =>
      if Ascii.eqb c "=" then Some ([], t)
      else match split_eq t with
           | Some (k, v) => Some (c :: k, v)
           | None => None
           end
  end.

Inductive error :=
| ENoEquals (buffer : list ascii)
    (* config.go write(): fmt.Errorf("parse the content error : line %d , %s = ? ", ...) *)
| EMissing (secs : list (list ascii))
    (* model.go loadModelFromConfig: fmt.Errorf("missing required sections: %s", ...) *)
| EFuel.
    (* not an error of the Go code: the loadSection loop of the model ran out of fuel.  With
       fuel = number of configuration entries + 1 this never happens (ConfigProofs.fuel_suffices);
       it is kept explicit so that nothing is hidden by totalisation *)
(* The third error of parseBuffer, a read error other than io.EOF, cannot occur on the
   strings.Reader that NewConfigFromText uses. *)

Inductive result (A : Type) := Ok (a : A) | Err (e : error).
Arguments Ok {A} a.
Arguments Err {A} e.

(* the variables of parseBuffer: section, buffer, canWrite; st_wr is the history of the
   AddConfig calls, newest first, each with the raw (untrimmed) option and value text *)
Record st := mkSt { st_sec : str; st_buf : str; st_cw : bool; st_wr : list (str * str * str) }.

(* write(section, lineNum, &buffer) *)
Definition flush (s : st) : result st :=
  match st_buf s with
  | [] => Ok s
  | _ =>
      match split_eq (st_buf s) with
      | None => Err (ENoEquals (st_buf s))
      | Some (k, v) => Ok (mkSt (st_sec s) [] (st_cw s) ((st_sec s, k, v) :: st_wr s))
      end
  end.

(* one iteration of the for loop, for a line that ReadLine delivered; `line` is already trimmed *)
Definition step (s : st) (line : str) : result st :=
  match (if st_cw s then flush s else Ok s) with
  | Err e => Err e
  | Ok s0 =>
      let s1 := mkSt (st_sec s0) (st_buf s0) false (st_wr s0) in
      if is_skip line then Ok (mkSt (st_sec s1) (st_buf s1) true (st_wr s1))
      else if is_header line then
        match (if is_nil (st_buf s1) then Ok s1 else flush s1) with
        | Err e => Err e
        | Ok s2 => Ok (mkSt (inner line) (st_buf s2) false (st_wr s2))
        end
      else
        let p := if ends_with "\" line then trim (removelast line) ++ [SP] else line in
        let cw' := negb (ends_with "\" line) in
        Ok (mkSt (st_sec s1) (st_buf s1 ++ cut_comment p) cw' (st_wr s1))
  end.

Fixpoint steps (s : st) (ls : list str) : result st :=
  match ls with
  | [] => Ok s
  | l :: r => match step s l with Ok s' => steps s' r | Err e => Err e end
  end.

(* the iteration in which ReadLine reports io.EOF *)
Definition finish (s : st) : result st :=
  match (if st_cw s then flush s else Ok s) with
  | Err e => Err e
  | Ok s1 => flush s1
  end.

Definition init : st := mkSt [] [] false [].

Definition parse_raw (t : str) : result (list (str * str * str)) :=
  match steps init (map trim (phys_lines t)) with
  | Err e => Err e
  | Ok s => match finish s with Err e => Err e | Ok s' => Ok (st_wr s') end
  end.

(* AddConfig: section "" is stored as "default"; option and value are trimmed by write() *)
Definition s_default : str := Eval compute in lit "default".
Definition norm_sec (s : str) : str := if is_nil s then s_default else s.

Notation config := (list (str * str * str)) (only parsing).   (* (section, option, value), newest first *)

Definition entry (e : str * str * str) : str * str * str :=
  let '(s, k, v) := e in (norm_sec s, trim k, trim v).

(* NewConfigFromText *)
Definition parse (t : str) : result config :=
  match parse_raw t with Err e => Err e | Ok w => Ok (map entry w) end.

(* c.data[section][option]: the newest entry wins *)
Definition lookup (c : config) (s k : str) : option str :=
  match find (fun e => str_eqb (fst (fst e)) s && str_eqb (snd (fst e)) k) c with
  | Some e => Some (snd e)
  | None => None
  end.

(* Config.get for a key "section::option" (model.go only passes lower-case constants) *)
Definition get (c : config) (s k : str) : str :=
  match lookup c s k with Some v => v | None => [] end.

(* ------------------------------------------------------------------------------------------ *)
(** * model.AddDef and what it calls *)

(* strings.Split(s, sep) for a one-byte separator: always at least one element *)
Fixpoint split_on (sep : ascii) (l : str) : list str :=
  match l with
  | [] => [[]]
  | c :: t =>
      if Ascii.eqb c sep then [] :: split_on sep t
      else match split_on sep t with
           | x :: r => (c :: x) :: r
           | [] => [[c]]
           end
  end.

Definition in_range (lo hi : N) (c : ascii) : bool :=
  let n := N_of_ascii c in (N.leb lo n && N.leb n hi)%bool.
Definition is_digit (c : ascii) : bool := in_range 48 57 c.
(* \w of Go's regexp (ASCII only): [0-9A-Za-z_] *)
Definition is_word (c : ascii) : bool :=
  is_digit c || in_range 65 90 c || in_range 97 122 c || Ascii.eqb c "_".

(* util.EscapeAssertion: regexp \b((r|p)[0-9]* )\. (without the blank), every non-overlapping leftmost match gets
   its '.' replaced by '_'.  As a scanner: `cand` = we are inside (r|p)[0-9]* that started at
   a word boundary; `prevw` = the previous byte is a word byte. *)
Fixpoint escape_go (cand prevw : bool) (l : str) : str :=
  match l with
  | [] => []
  | c :: t =>
      if cand then
        if is_digit c then c :: escape_go true true t
        else if Ascii.eqb c "." then "_"%char :: escape_go false false t
        else c :: escape_go false (is_word c) t
      else if negb prevw && (Ascii.eqb c "r" || Ascii.eqb c "p") then c :: escape_go true true t
      else c :: escape_go false (is_word c) t
  end.
Definition escape_assertion (l : str) : str := escape_go false false l.

Fixpoint take_until (c : ascii) (l : str) : option str :=
  match l with
  | [] => None
  | x :: t => if Ascii.eqb x c then Some []
              else match take_until c t with Some p => Some (x :: p) | None => None end
  end.
Fixpoint drop_to (c : ascii) (l : str) : option str :=
  match l with
  | [] => None
  | x :: t => if Ascii.eqb x c then Some t else drop_to c t
  end.

(* util.RemoveComments *)
Definition remove_comments (l : str) : str :=
  match take_until "#" l with Some p => trim p | None => l end.

(* getParamsToken: regexp `\((.*?)\)`, leftmost match = first '(' up to the first ')' after it
   (values never contain "\n", which `.` would not match) *)
Definition params_tokens (v : str) : list str :=
  match drop_to "(" v with
  | None => []
  | Some r => match take_until ")" r with None => [] | Some i => split_on "," i end
  end.

(* strings.Contains(s, "in") *)
Fixpoint contains_in (l : str) : bool :=
  match l with
  | [] => false
  | c :: t =>
      match t with
      | d :: _ => (Ascii.eqb c "i" && Ascii.eqb d "n") || contains_in t
      | [] => false
      end
  end.

Definition brackets_to_parens (l : str) : str :=
  map (fun c => if Ascii.eqb c "[" then "("%char else if Ascii.eqb c "]" then ")"%char else c) l.

Definition s_r : str := Eval compute in lit "r".
Definition s_p : str := Eval compute in lit "p".
Definition s_g : str := Eval compute in lit "g".
Definition s_e : str := Eval compute in lit "e".
Definition s_m : str := Eval compute in lit "m".

Record assertion := mkA { a_sec : str; a_key : str; a_value : str; a_tokens : list str; a_params : list str }.

(* AddDef(sec, key, value): None = `return false` (empty value) *)
Definition add_def (sec key value : str) : option assertion :=
  if is_nil value then None
  else if str_eqb sec s_r || str_eqb sec s_p then
    Some (mkA sec key value
              (map (fun t => key ++ "_"%char :: trim t) (split_on "," value)) [])
  else if str_eqb sec s_g then
    let ps := params_tokens value in
    let ts := split_on "," value in
    Some (mkA sec key value (firstn (List.length ts - List.length ps) ts) ps)
  else
    let v := remove_comments (escape_assertion value) in
    let v := if str_eqb sec s_m && contains_in v then brackets_to_parens v else v in
    Some (mkA sec key v [] []).

(* sectionNameMap *)
Definition n_request : str := Eval compute in lit "request_definition".
Definition n_policy : str := Eval compute in lit "policy_definition".
Definition n_role : str := Eval compute in lit "role_definition".
Definition n_effect : str := Eval compute in lit "policy_effect".
Definition n_matchers : str := Eval compute in lit "matchers".
Definition sec_name (sec : str) : str :=
  if str_eqb sec s_r then n_request
  else if str_eqb sec s_p then n_policy
  else if str_eqb sec s_g then n_role
  else if str_eqb sec s_e then n_effect
  else if str_eqb sec s_m then n_matchers
  else [].

(* strconv.Itoa for a natural number: the decimal digits of Coq's own nat -> decimal conversion *)
Fixpoint uint_digits (u : Decimal.uint) : str :=
  match u with
  | Decimal.Nil => []
  | Decimal.D0 u => "0"%char :: uint_digits u
  | Decimal.D1 u => "1"%char :: uint_digits u
  | Decimal.D2 u => "2"%char :: uint_digits u
  | Decimal.D3 u => "3"%char :: uint_digits u
  | Decimal.D4 u => "4"%char :: uint_digits u
  | Decimal.D5 u => "5"%char :: uint_digits u
  | Decimal.D6 u => "6"%char :: uint_digits u
  | Decimal.D7 u => "7"%char :: uint_digits u
  | Decimal.D8 u => "8"%char :: uint_digits u
  | Decimal.D9 u => "9"%char :: uint_digits u
  end.
Definition dec (n : nat) : str := uint_digits (Nat.to_uint n).

(* sec + getKeySuffix(i) *)
Definition key_of (sec : str) (i : nat) : str :=
  if Nat.eqb i 1 then sec else sec ++ dec i.

(* loadSection: i = 1, 2, ... until the first key without a (non-empty) value *)
Fixpoint load_section (c : config) (sec : str) (fuel i : nat) : result (list assertion) :=
  match fuel with
  | 0 => Err EFuel
  | S fuel' =>
      match add_def sec (key_of sec i) (get c (sec_name sec) (key_of sec i)) with
      | None => Ok []
      | Some a =>
          match load_section c sec fuel' (S i) with
          | Ok r => Ok (a :: r)
          | Err e => Err e
          end
      end
  end.

Notation model := (list (list assertion)) (only parsing).   (* assertions of r, p, g, e, m *)

Definition all_secs : list str := [s_r; s_p; s_g; s_e; s_m].

Fixpoint load_secs (c : config) (secs : list str) : result (list (list assertion)) :=
  match secs with
  | [] => Ok []
  | sec :: r =>
      match load_section c sec (S (List.length c)) 1 with
      | Err e => Err e
      | Ok a => match load_secs c r with Err e => Err e | Ok m => Ok (a :: m) end
      end
  end.

(* requiredSections = r, p, e, m *)
Definition missing (m : list (list assertion)) : list str :=
  flat_map (fun p : str * list assertion =>
              if is_nil (fst p) then []
              else if str_eqb (fst p) s_g then []
              else match snd p with [] => [sec_name (fst p)] | _ => [] end)
           (combine all_secs m).

(* loadModelFromConfig *)
Definition load_model (c : config) : result (list (list assertion)) :=
  match load_secs c all_secs with
  | Err e => Err e
  | Ok m => match missing m with [] => Ok m | ms => Err (EMissing ms) end
  end.

(* model.NewModelFromString *)
Definition load_text (t : str) : result (list (list assertion)) :=
  match parse t with Err e => Err e | Ok c => load_model c end.

Definition parse_string (t : string) := parse (list_ascii_of_string t).
Definition load_string (t : string) := load_text (list_ascii_of_string t).

(* ------------------------------------------------------------------------------------------ *)
(** * Specification side: documents, layouts, rendering *)

(* An abstract document: sections in order, each a name and its (key, value) definitions. *)
Notation doc := (list (str * list (str * str))) (only parsing).

(* What a document defines: the AddConfig history it stands for, newest first. *)
Definition sec_entries (s : str * list (str * str)) : list (str * str * str) :=
  map (fun kv => (norm_sec (fst s), fst kv, snd kv)) (snd s).
Definition cfg_doc (d : doc) : config := rev (flat_map sec_entries d).

(* A laid-out document = a document together with ONE layout of it.  `erase` forgets the
   layout, `render` produces the text.  "For all documents and all layouts" is "for all ldoc".

   Line ends: every physical line is followed by "\n"; a CRLF ending is the special case of a
   trailing pad that ends in "\r" (pads may contain \r, \t, \v, \f and spaces). *)
Inductive skip :=
| SBlank (pad : str)                               (* a line of blanks *)
| SComment (ind : str) (semi : bool) (text : str). (* ind, then '#' or ';', then any text *)

(* one continuation: the previous physical line ends  <c_pad> '\' <c_trail> "\n",
   the next one starts  <c_ind> <c_text> *)
Record cont := mkCont { c_pad : str; c_trail : str; c_ind : str; c_text : str }.

Record ldef := mkLdef {
  d_gap : list skip;          (* blank / comment lines in front of the definition *)
  d_ind : str; d_key : str; d_ws1 : str; (* '=' *) d_ws2 : str;
  d_first : str;              (* the part of the value on the first physical line *)
  d_more : list cont;         (* continuation lines *)
  d_trail : str;              (* blanks behind the last part *)
  d_cmt : option (bool * str) (* an in-line remark behind them: ';' (true) or '#', then any text *)
}.

Record lsec := mkLsec {
  s_gap : list skip; s_ind : str; s_name : str; s_trail : str; s_defs : list ldef }.

Record ldoc := mkLdoc { l_secs : list lsec; l_tail : list skip; l_final_nl : bool }.

(* the value: the parts joined by ONE space — continuation points are single blanks of the value *)
Definition def_value (d : ldef) : str :=
  d_first d ++ flat_map (fun c => SP :: c_text c) (d_more d).
Definition erase_def (d : ldef) : str * str := (d_key d, def_value d).
Definition erase_sec (s : lsec) : str * list (str * str) := (s_name s, map erase_def (s_defs s)).
Definition erase (l : ldoc) : doc := map erase_sec (l_secs l).

Definition skip_raw (k : skip) : str :=
  match k with
  | SBlank p => p
  | SComment i semi t => i ++ (if semi then ";"%char else "#"%char) :: t
  end.

Definition cmt_raw (c : option (bool * str)) : str :=
  match c with
  | None => []
  | Some (semi, t) => (if semi then ";"%char else "#"%char) :: t
  end.

Fixpoint cont_lines (cur : str) (cs : list cont) (trail : str) : list str :=
  match cs with
  | [] => [cur ++ trail]
  | c :: cs' => (cur ++ c_pad c ++ "\"%char :: c_trail c) :: cont_lines (c_ind c ++ c_text c) cs' trail
  end.

Definition def_head (d : ldef) : str := d_key d ++ d_ws1 d ++ "="%char :: d_ws2 d ++ d_first d.

Definition def_raws (d : ldef) : list str :=
  map skip_raw (d_gap d)
  ++ cont_lines (d_ind d ++ def_head d) (d_more d) (d_trail d ++ cmt_raw (d_cmt d)).

Definition header_raw (s : lsec) : str := s_ind s ++ "["%char :: s_name s ++ "]"%char :: s_trail s.

Definition sec_raws (s : lsec) : list str :=
  map skip_raw (s_gap s) ++ header_raw s :: flat_map def_raws (s_defs s).

Definition doc_raws (l : ldoc) : list str :=
  flat_map sec_raws (l_secs l) ++ map skip_raw (l_tail l).

Fixpoint unlines (final_nl : bool) (rs : list str) : str :=
  match rs with
  | [] => []
  | r :: rest =>
      match rest with
      | [] => if final_nl then r ++ [LF] else r
      | _ => r ++ LF :: unlines final_nl rest
      end
  end.

Definition render (l : ldoc) : str := unlines (l_final_nl l) (doc_raws l).

(** ** Well-formedness *)

Definition not_lf (c : ascii) : bool := negb (Ascii.eqb c LF).
(* layout blanks: any ASCII white space except the line feed *)
Definition blankb (p : str) : bool := forallb (fun c => is_space c && not_lf c) p.
Definition no_lf (x : str) : bool := forallb not_lf x.
(* no line feed, no comment character *)
Definition plain (x : str) : bool := forallb (fun c => not_lf c && negb (is_cmt c)) x.
(* TrimSpace leaves it alone *)
Definition trimmedb (x : str) : bool :=
  match x with [] => true | c :: _ => negb (is_space c) && negb (is_space (last x c)) end.

Definition wf_key (k : str) : bool :=
  negb (is_nil k) && trimmedb k && plain k && forallb (fun c => negb (Ascii.eqb c "=")) k
  && negb (starts_with "[" k).
Definition wf_value (v : str) : bool := trimmedb v && plain v && negb (ends_with "\" v).

Definition wf_doc (d : doc) : bool :=
  forallb (fun s : str * list (str * str) =>
             no_lf (fst s) && forallb (fun kv => wf_key (fst kv) && wf_value (snd kv)) (snd s)) d.

Definition wf_skip (k : skip) : bool :=
  match k with SBlank p => blankb p | SComment i _ t => blankb i && no_lf t end.

Definition wf_cont (c : cont) : bool :=
  blankb (c_pad c) && blankb (c_trail c) && blankb (c_ind c)
  && negb (is_nil (c_text c)) && trimmedb (c_text c).

(* the last continuation line must not look like a section header: `[ ... ]` *)
Fixpoint last_ok (cs : list cont) : bool :=
  match cs with
  | [] => true
  | c :: r => match r with [] => negb (is_header (c_text c)) | _ => last_ok r end
  end.

(* an in-line remark: no newline; after TrimSpace the line must end neither in '\' (it would be
   continued) nor in ']' (it could look like a section header) *)
Definition wf_cmt (c : option (bool * str)) : bool :=
  match c with
  | None => true
  | Some (_, t) =>
      no_lf t && negb (ends_with "\" (trim_right (cmt_raw c))) && negb (ends_with "]" (trim_right (cmt_raw c)))
  end.

(* `guard` = false leaves out the one condition that excludes finding F34 (last_ok); it is
   only used to state that the condition is necessary (C08 continuation_header_refuted) *)
Definition wf_ldef_g (guard : bool) (d : ldef) : bool :=
  forallb wf_skip (d_gap d) && blankb (d_ind d) && blankb (d_ws1 d) && blankb (d_ws2 d)
  && blankb (d_trail d) && wf_cmt (d_cmt d) && trimmedb (d_first d)
  && match d_more d with
     | [] => true
     | _ => negb (is_nil (d_first d)) && forallb wf_cont (d_more d)
            && (negb guard || last_ok (d_more d))
     end.

Definition wf_lsec_g (guard : bool) (s : lsec) : bool :=
  forallb wf_skip (s_gap s) && blankb (s_ind s) && blankb (s_trail s)
  && forallb (wf_ldef_g guard) (s_defs s).

Definition wf_layout_g (guard : bool) (l : ldoc) : bool :=
  forallb (wf_lsec_g guard) (l_secs l) && forallb wf_skip (l_tail l).

Definition wf_ldef := wf_ldef_g true.
Definition wf_lsec := wf_lsec_g true.
Definition wf_layout := wf_layout_g true.

Definition wf_ldoc (l : ldoc) : bool := wf_doc (erase l) && wf_layout l.

(** ** Vocabulary of the statements about arbitrary texts *)

(* what ReadLine removes from a terminated line besides the "\n": one "\r" in front of it *)
Fixpoint strip_cr (x : str) : str :=
  match x with
  | [] => []
  | c :: t => match t with
              | [] => if Ascii.eqb c CR then [] else [c]
              | _ => c :: strip_cr t
              end
  end.

(* what a (trimmed) physical line contributes to the definition under construction: nothing for
   blank, comment and header lines; otherwise the line up to its in-line comment, where a
   trailing continuation backslash and the blanks in front of it count as one space *)
Definition payload (l : str) : str :=
  if is_skip l then [] else if is_header l then []
  else cut_comment (if ends_with "\" l then trim (removelast l) ++ [SP] else l).

(* the untrimmed text of one AddConfig call: option '=' value *)
Definition raw_text (e : str * str * str) : str := snd (fst e) ++ "="%char :: snd e.

(* every byte except the two line-terminator bytes *)
Definition keep_byte (c : ascii) : bool := negb (Ascii.eqb c LF) && negb (Ascii.eqb c CR).

(* the plainest layout of a document: "[name]", "key = value", LF, final newline *)
Definition canon_def (kv : str * str) : ldef := mkLdef [] [] (fst kv) [SP] [SP] (snd kv) [] [] None.
Definition canon_sec (s : str * list (str * str)) : lsec := mkLsec [] [] (fst s) [] (map canon_def (snd s)).
Definition canon (d : doc) : ldoc := mkLdoc (map canon_sec d) [] true.

(* section names as AddConfig sees them are pairwise different *)
Fixpoint distinctb (l : list str) : bool :=
  match l with
  | [] => true
  | x :: r => negb (existsb (str_eqb x) r) && distinctb r
  end.
Definition distinct_sections (d : doc) : bool := distinctb (map (fun s => norm_sec (fst s)) d).
