(* Store.v — executable model of model/policy.go + model/assertion.go: one assertion's rule
   list `Policy` and its string-keyed index `PolicyMap`, with every operation the management
   API uses, written after the Go code (append + priority bubble, tail re-index on removal,
   in-place update, batch update with the deferred rollback, filtered removal that rebuilds
   the index while scanning).  Definitions only. *)
From Coq Require Import List String Ascii Bool Arith ZArith.
Import ListNotations.
From Casbin Require Import Base.

Record store := { pol : list rule; idx : smap nat }.
Definition empty_store : store := {| pol := []; idx := [] |}.

(* model.HasPolicy *)
Definition has (s : store) (r : rule) : bool :=
  match lookup (key r) (idx s) with Some _ => true | None => false end.
(* model.HasPolicies: true when any of the rules is present *)
Definition has_any (s : store) (rs : list rule) : bool := existsb (has s) rs.

(* PolicyMap[k]++ *)
Definition incr (k : string) (m : smap nat) : smap nat :=
  match lookup k m with Some n => set k (S n) m | None => set k 1 m end.

(* The priority bubble of model.AddPolicy, scanning the policy from its end: the maximal
   suffix of rules whose priority parses and is greater than v moves one slot to the right.
   Input: the policy reversed.  Output: (moved suffix in original order, rest reversed). *)
Fixpoint split_tail (c : nat) (v : Z) (rl : list rule) : list rule * list rule :=
  match rl with
  | [] => ([], [])
  | x :: t =>
      if Nat.ltb c (List.length x) then
        match atoi (nth c x ""%string) with
        | Some vx => if (vx <=? v)%Z then ([], rl)
                     else let '(mv, rest) := split_tail c v t in (mv ++ [x], rest)
        | None => ([], rl)
        end
      else ([], rl)
  end.

(* model.AddPolicy(sec, ptype, rule); prio = the resolved priority column (None: g section,
   or no priority field in the definition) *)
Definition add (prio : option nat) (s : store) (r : rule) : store :=
  let plain := {| pol := pol s ++ [r]; idx := set (key r) (List.length (pol s)) (idx s) |} in
  match prio with
  | Some c =>
      if Nat.ltb c (List.length r) then
        match atoi (nth c r ""%string) with
        | Some v =>
            let '(mv, rest) := split_tail c v (rev (pol s)) in
            let m1 := fold_left (fun m x => incr (key x) m) (rev mv) (idx plain) in
            {| pol := rev rest ++ r :: mv; idx := set (key r) (List.length rest) m1 |}
        | None => plain
        end
      else plain
  | None => plain
  end.

(* model.AddPoliciesWithAffected: skip rules already indexed; returns the affected rules *)
Fixpoint add_many (prio : option nat) (s : store) (rs : list rule) : store * list rule :=
  match rs with
  | [] => (s, [])
  | r :: t =>
      if has s r then add_many prio s t
      else let '(s', aff) := add_many prio (add prio s r) t in (s', r :: aff)
  end.

(* for i := index; i < len(Policy); i++ { PolicyMap[key Policy[i]] = i } *)
Fixpoint reindex (l : list rule) (i : nat) (m : smap nat) : smap nat :=
  match l with [] => m | r :: t => reindex t (S i) (set (key r) i m) end.

(* model.RemovePolicy *)
Definition remove (s : store) (r : rule) : store * bool :=
  match lookup (key r) (idx s) with
  | None => (s, false)
  | Some i =>
      let tail := skipn (S i) (pol s) in
      ({| pol := firstn i (pol s) ++ tail; idx := reindex tail i (del (key r) (idx s)) |}, true)
  end.

(* model.RemovePoliciesWithAffected *)
Fixpoint remove_many (s : store) (rs : list rule) : store * list rule :=
  match rs with
  | [] => (s, [])
  | r :: t =>
      let '(s1, ok) := remove s r in
      let '(s2, aff) := remove_many s1 t in
      (s2, if ok then r :: aff else aff)
  end.

(* model.UpdatePolicy *)
Definition update (s : store) (o n : rule) : store * bool :=
  match lookup (key o) (idx s) with
  | None => (s, false)
  | Some i => ({| pol := set_nth i n (pol s); idx := set (key n) i (del (key o) (idx s)) |}, true)
  end.

(* model.UpdatePolicies: pairwise update; a missing old rule triggers the deferred rollback
   over modifiedRuleIndex (index -> (old, new)); the rollback iterates a Go map (unspecified
   order), the model iterates newest entry first (under the guard of the theorems every
   order gives the same result; the correspondence check compares only such cases). *)
Definition rollback_one (s : store) (e : nat * (rule * rule)) : store :=
  let '(i, (o, n)) := e in
  {| pol := set_nth i o (pol s); idx := set (key o) i (del (key n) (idx s)) |}.

Fixpoint set_mod (i : nat) (v : rule * rule) (m : list (nat * (rule * rule))) : list (nat * (rule * rule)) :=
  match m with
  | [] => [(i, v)]
  | (j, w) :: t => if Nat.eqb i j then (j, v) :: t else (j, w) :: set_mod i v t
  end.

Fixpoint update_many_loop (s : store) (os ns : list rule) (modified : list (nat * (rule * rule)))
  : store * bool :=
  match os, ns with
  | o :: os', n :: ns' =>
      match lookup (key o) (idx s) with
      | None => (fold_left rollback_one (rev modified) s, false)
      | Some i =>
          update_many_loop
            {| pol := set_nth i n (pol s); idx := set (key n) i (del (key o) (idx s)) |}
            os' ns' (set_mod i (o, n) modified)
      end
  | _, _ => (s, true)
  end.
Definition update_many (s : store) (os ns : list rule) : store * bool :=
  update_many_loop s os ns [].

(* the field filter of GetFilteredPolicy / RemoveFilteredPolicy:
   `fieldValue != ""%string && rule[fieldIndex+i] != fieldValue`; None = index out of range (Go panics) *)
Fixpoint rule_matches (fi : nat) (fvs : list string) (r : rule) : option bool :=
  match fvs with
  | [] => Some true
  | fv :: t =>
      if String.eqb fv ""%string then rule_matches (S fi) t r
      else match nth_error r fi with
           | None => None
           | Some x => if String.eqb x fv then rule_matches (S fi) t r else Some false
           end
  end.

(* model.GetFilteredPolicy *)
Fixpoint get_filtered (fi : nat) (fvs : list string) (l : list rule) : option (list rule) :=
  match l with
  | [] => Some []
  | r :: t =>
      match rule_matches fi fvs r with
      | None => None
      | Some b => match get_filtered fi fvs t with
                  | None => None
                  | Some rest => Some (if b then r :: rest else rest)
                  end
      end
  end.

(* model.RemoveFilteredPolicy: PolicyMap is reset and rebuilt for the kept rules while scanning;
   result (store, removed?, effects); None = panic *)
Fixpoint scan_filtered (fi : nat) (fvs : list string) (l : list rule) (tmp : list rule) (m : smap nat) (eff : list rule)
  : option (list rule * smap nat * list rule) :=
  match l with
  | [] => Some (tmp, m, eff)
  | r :: t =>
      match rule_matches fi fvs r with
      | None => None
      | Some true => scan_filtered fi fvs t tmp m (eff ++ [r])
      | Some false => scan_filtered fi fvs t (tmp ++ [r]) (set (key r) (List.length tmp) m) eff
      end
  end.

Definition remove_filtered (s : store) (fi : nat) (fvs : list string) : option (store * bool * list rule) :=
  match scan_filtered fi fvs (pol s) [] [] [] with
  | None => None
  | Some (tmp, m, eff) =>
      if Nat.eqb (List.length tmp) (List.length (pol s))
      then Some ({| pol := pol s; idx := m |}, false, eff)
      else Some ({| pol := tmp; idx := m |}, true, eff)
  end.

(* model.ClearPolicy for one assertion *)
Definition clear (s : store) : store := empty_store.

(* rebuild the whole index, as the sort routines do after sorting *)
Definition reindex_all (l : list rule) (m : smap nat) : smap nat := reindex l 0 m.

(* ---------- specification: an ordered set of rules ---------- *)
Fixpoint remove_first (r : rule) (l : list rule) : list rule :=
  match l with
  | [] => []
  | x :: t => if rule_eqb r x then t else x :: remove_first r t
  end.

Fixpoint replace_first (o n : rule) (l : list rule) : list rule :=
  match l with
  | [] => []
  | x :: t => if rule_eqb o x then n :: t else x :: replace_first o n t
  end.

(* the filter as a total predicate, used where every rule is long enough *)
Definition matches_spec (fi : nat) (fvs : list string) (r : rule) : bool :=
  match rule_matches fi fvs r with Some b => b | None => false end.

(* where a rule with numeric priority v goes: after the last rule that stops the bubble *)
Definition prio_of (c : nat) (r : rule) : option Z :=
  if Nat.ltb c (List.length r) then atoi (nth c r ""%string) else None.

Definition spec_insert (prio : option nat) (l : list rule) (r : rule) : list rule :=
  match prio with
  | Some c =>
      match prio_of c r with
      | Some v => let '(mv, rest) := split_tail c v (rev l) in rev rest ++ r :: mv
      | None => l ++ [r]
      end
  | None => l ++ [r]
  end.

(* spec of the batch operations *)
Fixpoint spec_add_many (prio : option nat) (l : list rule) (rs : list rule) : list rule * list rule :=
  match rs with
  | [] => (l, [])
  | r :: t => if mem_rule r l then spec_add_many prio l t
              else let '(l', aff) := spec_add_many prio (spec_insert prio l r) t in (l', r :: aff)
  end.

Fixpoint spec_remove_many (l : list rule) (rs : list rule) : list rule * list rule :=
  match rs with
  | [] => (l, [])
  | r :: t => let '(l', aff) := spec_remove_many (remove_first r l) t in
              (l', if mem_rule r l then r :: aff else aff)
  end.

Fixpoint spec_update_many (l : list rule) (os ns : list rule) : option (list rule) :=
  match os, ns with
  | o :: os', n :: ns' => if mem_rule o l then spec_update_many (replace_first o n l) os' ns' else None
  | _, _ => Some l
  end.

(* ---------- the management API on one assertion, memory only ----------
   internal_api.go without adapter, watcher, dispatcher and role managers: the pre-checks and
   the boolean results of Add/Remove/Update(Filtered)Polic(y|ies)(Ex). *)
Inductive sop :=
| OAdd (r : rule)
| OAddMany (rs : list rule)        (* AddPolicies: refused when any rule is listed *)
| OAddManyEx (rs : list rule)      (* AddPoliciesEx: listed rules are skipped *)
| ORemove (r : rule)
| ORemoveMany (rs : list rule)
| OUpdate (o n : rule)
| OUpdateMany (os ns : list rule)
| ORemoveFiltered (fi : nat) (fvs : list string)
| OClear.

Inductive sres := RBool (b : bool) | RErr | RPanic.

Definition api_step (prio : option nat) (s : store) (op : sop) : store * sres :=
  match op with
  | OAdd r => if has s r then (s, RBool false) else (add prio s r, RBool true)
  | OAddMany rs => if has_any s rs then (s, RBool false) else (fst (add_many prio s rs), RBool true)
  | OAddManyEx rs => (fst (add_many prio s rs), RBool true)
  | ORemove r => let '(s', b) := remove s r in (s', RBool b)
  | ORemoveMany rs =>
      if has_any s rs then
        let '(s', aff) := remove_many s rs in (s', RBool (match aff with [] => false | _ => true end))
      else (s, RBool false)
  | OUpdate o n => let '(s', b) := update s o n in (s', RBool b)
  | OUpdateMany os ns =>
      if Nat.eqb (List.length os) (List.length ns)
      then let '(s', b) := update_many s os ns in (s', RBool b)
      else (s, RErr)
  | ORemoveFiltered fi fvs =>
      match fvs with
      | [] => (s, RErr)
      | _ => match remove_filtered s fi fvs with
             | Some (s', b, _) => (s', RBool b)
             | None => (s, RPanic)
             end
      end
  | OClear => (clear s, RBool true)
  end.

(* the same calls on the specification: an ordered list without duplicates *)
Definition spec_step (prio : option nat) (l : list rule) (op : sop) : list rule * sres :=
  match op with
  | OAdd r => if mem_rule r l then (l, RBool false) else (spec_insert prio l r, RBool true)
  | OAddMany rs => if existsb (fun r => mem_rule r l) rs then (l, RBool false)
                   else (fst (spec_add_many prio l rs), RBool true)
  | OAddManyEx rs => (fst (spec_add_many prio l rs), RBool true)
  | ORemove r => (remove_first r l, RBool (mem_rule r l))
  | ORemoveMany rs => if existsb (fun r => mem_rule r l) rs
                      then (fst (spec_remove_many l rs), RBool true) else (l, RBool false)
  | OUpdate o n => (replace_first o n l, RBool (mem_rule o l))
  | OUpdateMany os ns =>
      if Nat.eqb (List.length os) (List.length ns)
      then match spec_update_many l os ns with Some l' => (l', RBool true) | None => (l, RBool false) end
      else (l, RErr)
  | ORemoveFiltered fi fvs =>
      match fvs with
      | [] => (l, RErr)
      | _ => (filter (fun r => negb (matches_spec fi fvs r)) l, RBool (existsb (matches_spec fi fvs) l))
      end
  | OClear => ([], RBool true)
  end.
