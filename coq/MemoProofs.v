(* MemoProofs.v — decisions never go stale: the g() memo only ever holds answers of the CURRENT
   role graph, because every operation that changes a link also runs invalidateMatcherMap();
   hence every Enforce, at any point of any history, returns what the memo-free evaluation of
   the currently listed rules and links returns — and (MachineProofs) those links answer like
   the graph rebuilt from the listed grouping rules, i.e. like a freshly constructed enforcer. *)
From Coq Require Import List String Ascii Bool Arith Lia.
Import ListNotations.
From Casbin Require Import Base BaseProofs Store StoreProofs Roles RolesProofs Priority Machine MachineProofs MachineFrame MachineSync Memo.

(* ---------- the memo key is injective on NUL-free arguments (F26 otherwise) ---------- *)
Fixpoint nul_free (s : string) : bool :=
  match s with
  | EmptyString => true
  | String c t => negb (Ascii.eqb c nul) && nul_free t
  end.

Definition keyish (x : string) : Prop := x = EmptyString \/ exists t, x = String nul t.

Lemma gkey_keyish args : keyish (gkey args).
Proof. destruct args; [left; reflexivity|right; eexists; reflexivity]. Qed.

Lemma app_nul_split a : forall b x y, nul_free a = true -> nul_free b = true -> keyish x -> keyish y ->
  (a ++ x)%string = (b ++ y)%string -> a = b /\ x = y.
Proof.
  induction a as [|c a IH]; intros b x y Ha Hb Kx Ky E.
  - destruct b as [|d b]; [auto|]. cbn [append] in E. cbn [nul_free] in Hb. apply andb_true_iff in Hb as [Hd _].
    destruct Kx as [->|[t ->]]; [discriminate|]. inversion E; subst. rewrite Ascii.eqb_refl in Hd. discriminate.
  - cbn [nul_free] in Ha. apply andb_true_iff in Ha as [Hc Ha].
    destruct b as [|d b].
    + cbn [append] in E. destruct Ky as [->|[t ->]]; [discriminate|]. inversion E; subst. rewrite Ascii.eqb_refl in Hc. discriminate.
    + cbn [append] in E. inversion E; subst. cbn [nul_free] in Hb. apply andb_true_iff in Hb as [_ Hb].
      destruct (IH b x y Ha Hb Kx Ky H1) as [-> ->]. auto.
Qed.

Theorem gkey_injective a : forall b, forallb nul_free a = true -> forallb nul_free b = true ->
  gkey a = gkey b -> a = b.
Proof.
  induction a as [|x a IH]; intros b Ha Hb E; destruct b as [|y b]; cbn [gkey] in E; try discriminate; [reflexivity|].
  cbn [forallb] in Ha, Hb. apply andb_true_iff in Ha as [Hx Ha]. apply andb_true_iff in Hb as [Hy Hb].
  inversion E as [E1]. destruct (app_nul_split x y (gkey a) (gkey b) Hx Hy (gkey_keyish a) (gkey_keyish b) E1) as [-> E2].
  rewrite (IH b Ha Hb E2). reflexivity.
Qed.

Example gkey_collision_refuted :
  gkey [String nul "b"; "c"]%string = gkey [""; "b"; "c"]%string /\ [String nul "b"; "c"]%string <> [""; "b"; "c"]%string.
Proof. split; [reflexivity|discriminate]. Qed.

(* ---------- the memo invariant ---------- *)
Definition MemoOk (c : cstate) : Prop :=
  forall pt k v, memo_get c pt k = Some v ->
    exists args, forallb nul_free args = true /\ k = gkey args /\ v = has_link_args (get_links (ms c) pt) args.

Lemma memo_get_put c pt k v pt' k' :
  memo_get (memo_put c pt k v) pt' k' =
    if String.eqb pt' pt then (if String.eqb k' k then Some v else memo_get c pt k') else memo_get c pt' k'.
Proof.
  unfold memo_get, memo_put. cbn [memo]. rewrite lookup_set_del. destruct (String.eqb pt' pt) eqn:E; [|reflexivity].
  rewrite lookup_set. destruct (String.eqb k' k); [reflexivity|]. destruct (lookup pt (memo c)); reflexivity.
Qed.

Lemma g_call_ok c pt args : MemoOk c -> forallb nul_free args = true ->
  fst (g_call c pt args) = has_link_args (get_links (ms c) pt) args /\
  MemoOk (snd (g_call c pt args)) /\ ms (snd (g_call c pt args)) = ms c.
Proof.
  intros M Ha. unfold g_call. destruct (memo_get c pt (gkey args)) as [v|] eqn:E; cbn [fst snd].
  - destruct (M pt _ v E) as [args' [Ha' [Ek Ev]]]. rewrite (gkey_injective args args' Ha Ha' Ek). auto.
  - split; [reflexivity|]. split; [|reflexivity].
    intros pt' k' v' H. rewrite memo_get_put in H. cbn [memo_put ms].
    destruct (String.eqb pt' pt) eqn:Ep; [|apply M; exact H]. apply String.eqb_eq in Ep. subst pt'.
    destruct (String.eqb k' (gkey args)) eqn:Ek; [|apply M; exact H].
    apply String.eqb_eq in Ek. inversion H; subst. exists args. auto.
Qed.

Definition nul_free_rule (r : rule) : bool := forallb nul_free r.

Lemma g_args_nul_free f req rule : nul_free_rule req = true -> nul_free_rule rule = true ->
  forallb nul_free (g_args f req rule) = true.
Proof.
  intros Hr Hp.
  assert (N : forall l i, nul_free_rule l = true -> nul_free (nth i l ""%string) = true).
  { intros l. induction l as [|x t IH]; intros i H; destruct i; cbn [nth]; try reflexivity;
      cbn [nul_free_rule forallb] in H; apply andb_true_iff in H as [Hx Ht]; [exact Hx|apply IH; exact Ht]. }
  destruct f; cbn [g_args forallb]; rewrite ?N by assumption; reflexivity.
Qed.

Lemma enforce_rules_ok f req rules : forall c, MemoOk c -> nul_free_rule req = true ->
  Forall (fun r => nul_free_rule r = true) rules ->
  fst (enforce_rules f c req rules) = enforce_rules_pure f (get_links (ms c) "g") req rules /\
  MemoOk (snd (enforce_rules f c req rules)) /\ ms (snd (enforce_rules f c req rules)) = ms c.
Proof.
  induction rules as [|rule t IH]; intros c M Hr Hp; cbn [enforce_rules enforce_rules_pure fst snd]; [auto|].
  inversion Hp as [|? ? Hrule Ht]; subst.
  destruct (negb (Nat.eqb (List.length rule) (req_arity f))); cbn [fst snd]; [auto|].
  destruct (g_call_ok c "g" (g_args f req rule) M (g_args_nul_free f req rule Hr Hrule)) as [Ev [M1 Es]].
  destruct (g_call c "g" (g_args f req rule)) as [gv c1]. cbn [fst snd] in *. subst gv. unfold match_pure.
  destruct (has_link_args _ _ && rest_match f req rule); cbn [fst snd]; [auto|].
  destruct (IH c1 M1 Hr Ht) as [E2 [M2 Es2]]. rewrite Es in E2. rewrite E2, Es2, Es. auto.
Qed.

Lemma empty_rule_nul_free f : nul_free_rule (empty_rule f) = true.
Proof. destruct f; reflexivity. Qed.

Theorem enforce_ok f c req : MemoOk c -> nul_free_rule req = true ->
  Forall (fun r => nul_free_rule r = true) (pol (get_store (ms c) "p")) ->
  fst (enforce f c req) = enforce_pure f (pol (get_store (ms c) "p")) (get_links (ms c) "g") req /\
  MemoOk (snd (enforce f c req)) /\ ms (snd (enforce f c req)) = ms c.
Proof.
  intros M Hr Hp. unfold enforce, enforce_pure.
  destruct (negb (Nat.eqb (List.length req) (req_arity f))); cbn [fst snd]; [auto|].
  destruct (pol (get_store (ms c) "p")) as [|r0 t] eqn:Ep.
  - destruct (g_call_ok c "g" (g_args f req (empty_rule f)) M (g_args_nul_free f req _ Hr (empty_rule_nul_free f))) as [Ev [M1 Es]].
    destruct (g_call c "g" (g_args f req (empty_rule f))) as [gv c1]. cbn [fst snd] in *. subst gv. auto.
  - apply (enforce_rules_ok f req (r0 :: t) c M Hr Hp).
Qed.

(* ---------- links change only together with an invalidation ---------- *)
Definition inval_frame (a b : mstate) : Prop :=
  inval a <= inval b /\ (inval b = inval a -> forall pt, get_links b pt = get_links a pt).

Lemma inval_frame_refl s : inval_frame s s. Proof. split; [apply le_n|auto]. Qed.
Lemma inval_frame_store pt a s st : inval_frame a s -> inval_frame a (with_store s pt st).
Proof. intros H. exact H. Qed.
Lemma inval_frame_links pt a d s x rs : inval_frame a s -> inval_frame a (fst (links_update d s pt x rs)).
Proof.
  intros [H1 H2]. unfold links_update. destruct (build_incremental _ _ _ _) as [l ok]. unfold inval_frame. cbn.
  split; [lia|]. intros E. lia.
Qed.
Lemma inval_frame_persist s c : True -> inval_frame s (fst (fst (persist s c))).
Proof.
  intros _. unfold persist. destruct (autosave s); [|apply inval_frame_refl].
  destruct (adapter_call (ad s) c) as [[a ok] old]. cbn [fst]. split; [cbn; lia|intros _ pt; reflexivity].
Qed.

Lemma notify_inval cfg s r ex upd : inval (notify cfg s r ex upd) = inval s /\
  forall pt, get_links (notify cfg s r ex upd) pt = get_links s pt.
Proof.
  unfold notify. destruct r as [[|]| | |]; try (split; reflexivity). destruct (autonotify s); [|split; reflexivity].
  destruct (watcher s); split; reflexivity.
Qed.

Ltac frame_of :=
  match goal with
  | |- inval_frame ?s (fst (add_wo ?d ?s ?pt ?r)) =>
      apply (add_wo_R pt inval_frame inval_frame_refl (inval_frame_store pt) (inval_frame_links pt) (fun _ => True) inval_frame_persist d s r I)
  | |- inval_frame ?s (fst (add_many_wo ?d ?s ?pt ?rs ?arr)) =>
      apply (add_many_wo_R pt inval_frame inval_frame_refl (inval_frame_store pt) (inval_frame_links pt) (fun _ => True) inval_frame_persist d s rs arr I)
  | |- inval_frame ?s (fst (remove_wo ?d ?s ?pt ?r)) =>
      apply (remove_wo_R pt inval_frame (inval_frame_store pt) (inval_frame_links pt) (fun _ => True) inval_frame_persist d s r I)
  | |- inval_frame ?s (fst (remove_many_wo ?d ?s ?pt ?rs)) =>
      apply (remove_many_wo_R pt inval_frame inval_frame_refl (inval_frame_store pt) (inval_frame_links pt) (fun _ => True) inval_frame_persist d s rs I)
  | |- inval_frame ?s (fst (update_wo ?d ?s ?pt ?o ?n)) =>
      apply (update_wo_R pt inval_frame (inval_frame_store pt) (inval_frame_links pt) (fun _ => True) inval_frame_persist d s o n I)
  | |- inval_frame ?s (fst (update_many_wo ?d ?s ?pt ?os ?ns)) =>
      apply (update_many_wo_R pt inval_frame inval_frame_refl (inval_frame_store pt) (inval_frame_links pt) (fun _ => True) inval_frame_persist d s os ns I)
  | |- inval_frame ?s (fst (remove_filtered_wo ?d ?s ?pt ?fi ?fvs)) =>
      apply (remove_filtered_wo_R pt inval_frame inval_frame_refl (inval_frame_store pt) (inval_frame_links pt) (fun _ => True) inval_frame_persist d s fi fvs I)
  end.

Lemma inval_frame_notify cfg a s r ex upd : inval_frame a s -> inval_frame a (notify cfg s r ex upd).
Proof.
  intros [H1 H2]. destruct (notify_inval cfg s r ex upd) as [Ei El]. split; [rewrite Ei; exact H1|].
  intros E pt. rewrite El. apply H2. rewrite <- Ei. exact E.
Qed.

(* every operation of the machine, in every state: a link changes only if the matcher cache was
   invalidated during the same call *)
Theorem step_wo_inval_frame cfg op : forall s nt, inval_frame s (fst (step_wo cfg s op nt)).
Proof.
  induction op; intros s nt; cbn [step_wo];
    try (destruct (def_of cfg pt) as [d|]; [|apply inval_frame_refl]);
    try (destruct nt; cbn [fst snd]; [apply inval_frame_notify|]); try frame_of.
  - destruct (update_filtered_wo d s pt ns fi fvs) as [[s' r] old] eqn:E.
    assert (F : inval_frame s s').
    { replace s' with (fst (fst (update_filtered_wo d s pt ns fi fvs))) by (rewrite E; reflexivity).
      apply (update_filtered_wo_R pt inval_frame (inval_frame_store pt) (inval_frame_links pt) (fun _ => True) inval_frame_persist d s ns fi fvs I). }
    destruct nt; cbn [fst snd]; [apply inval_frame_notify|]; exact F.
  - apply IHop.
  - unfold clear_policy, inval_frame. cbn. split; [lia|intros E; lia].
  - unfold load_policy, inval_frame. crunch; cbn; try (split; [lia|intros _ pt; reflexivity]).
    split; [lia|]. intros E. lia.
  - unfold save_policy. crunch; split; try (cbn; lia); intros _ pt; reflexivity.
  - cbn [fst]. split; [cbn; lia|intros _ pt; reflexivity].
  - cbn [fst]. split; [cbn; lia|intros _ pt; reflexivity].
  - cbn [fst]. split; [cbn; lia|intros _ pt; reflexivity].
Qed.

(* ---------- every step keeps the memo truthful ---------- *)
Definition cop_ok (c : cstate) (op : cop) : Prop :=
  match op with
  | CMach _ => True
  | CEnforce req => nul_free_rule req = true /\ Forall (fun r => nul_free_rule r = true) (pol (get_store (ms c) "p"))
  end.

Theorem cstep_MemoOk cfg f c op : MemoOk c -> cop_ok c op -> MemoOk (fst (cstep cfg f c op)).
Proof.
  intros M G. destruct op as [o|req]; cbn [cstep].
  - pose proof (step_wo_inval_frame cfg o (ms c) true) as [_ Hl]. fold (step cfg (ms c) o) in Hl.
    destruct (step cfg (ms c) o) as [s' r]. cbn [fst] in *.
    destruct (Nat.eqb (inval s') (inval (ms c))) eqn:E.
    + apply Nat.eqb_eq in E. intros pt k v H. unfold memo_get in H. cbn [memo ms] in *.
      destruct (M pt k v H) as [args [Ha [Ek Ev]]]. exists args. rewrite (Hl E pt). auto.
    + intros pt k v H. unfold memo_get in H. cbn [memo lookup] in H. discriminate.
  - destruct G as [Hr Hp]. destruct (enforce_ok f c req M Hr Hp) as [_ [M1 _]].
    destruct (enforce f c req) as [e c']. exact M1.
Qed.

(* the decision of every Enforce call is the memo-free one for the state in which it is asked *)
Theorem cstep_enforce_fresh cfg f c req : MemoOk c -> cop_ok c (CEnforce req) ->
  snd (cstep cfg f c (CEnforce req)) =
    CDec (enforce_pure f (pol (get_store (ms c) "p")) (get_links (ms c) "g") req) /\
  ms (fst (cstep cfg f c (CEnforce req))) = ms c.
Proof.
  intros M [Hr Hp]. cbn [cstep]. destruct (enforce_ok f c req M Hr Hp) as [E [_ Es]].
  destruct (enforce f c req) as [e c']. cbn [fst snd] in *. subst e. auto.
Qed.

Fixpoint cguards (cfg : mconf) (f : family) (c : cstate) (ops : list cop) : Prop :=
  match ops with
  | [] => True
  | op :: t => cop_ok c op /\ cguards cfg f (fst (cstep cfg f c op)) t
  end.

(* all histories: after ANY interleaving of management calls and Enforce calls, the memo is
   truthful, so the next Enforce — whatever was asked before — answers like the memo-free
   evaluation of the current state *)
Theorem crun_MemoOk cfg f ops : forall c, MemoOk c -> cguards cfg f c ops -> MemoOk (fst (crun cfg f c ops)).
Proof.
  induction ops as [|op t IH]; intros c M G; cbn [crun fst]; [exact M|]. destruct G as [G1 G2].
  pose proof (cstep_MemoOk cfg f c op M G1) as M1. destruct (cstep cfg f c op) as [c1 r]. cbn [fst] in *.
  specialize (IH c1 M1 G2). destruct (crun cfg f c1 t). exact IH.
Qed.

Theorem no_stale_decision cfg f ops c req : MemoOk c -> cguards cfg f c (ops ++ [CEnforce req]) ->
  let c' := fst (crun cfg f c ops) in
  snd (cstep cfg f c' (CEnforce req)) = CDec (enforce_pure f (pol (get_store (ms c') "p")) (get_links (ms c') "g") req).
Proof.
  intros M G c'.
  assert (H : forall ops c, MemoOk c -> cguards cfg f c (ops ++ [CEnforce req]) ->
     MemoOk (fst (crun cfg f c ops)) /\ cop_ok (fst (crun cfg f c ops)) (CEnforce req)).
  { clear. induction ops as [|op t IH]; intros c M G; cbn [crun app cguards fst] in *.
    - destruct G as [G1 _]. auto.
    - destruct G as [G1 G2]. pose proof (cstep_MemoOk cfg f c op M G1) as M1.
      destruct (cstep cfg f c op) as [c1 r]. cbn [fst] in *. specialize (IH c1 M1 G2). destruct (crun cfg f c1 t). exact IH. }
  destruct (H ops c M G) as [M' G']. apply (cstep_enforce_fresh cfg f c' req M' G').
Qed.

Lemma cinit_MemoOk cfg sv content : MemoOk (cinit cfg sv content).
Proof. intros pt k v H. unfold memo_get in H. cbn in H. discriminate. Qed.

(* the fresh enforcer: links rebuilt from the listed grouping rules alone *)
Lemma has_link_args_equiv a b args : links_equiv a b -> has_link_args a args = has_link_args b args.
Proof.
  intros E. unfold has_link_args. destruct args as [|u [|r [|d [|x t]]]]; try reflexivity; apply has_link_equiv; exact E.
Qed.

Lemma enforce_pure_equiv f rules a b req : links_equiv a b -> enforce_pure f rules a req = enforce_pure f rules b req.
Proof.
  intros E. unfold enforce_pure, match_pure. destruct (negb _); [reflexivity|].
  assert (R : forall rs, enforce_rules_pure f a req rs = enforce_rules_pure f b req rs).
  { induction rs as [|r t IH]; cbn [enforce_rules_pure]; [reflexivity|]. unfold match_pure.
    rewrite (has_link_args_equiv a b _ E), IH. reflexivity. }
  destruct rules; [rewrite (has_link_args_equiv a b _ E); reflexivity|apply R].
Qed.

Theorem decision_of_fresh_enforcer cfg f s d req : MInv cfg s -> def_of cfg "g"%string = Some d -> a_is_g d = true ->
  enforce_pure f (pol (get_store s "p")) (get_links s "g") req =
  enforce_pure f (pol (get_store s "p")) (fst (rebuild (a_arity d) (pol (get_store s "g")))) req.
Proof. intros M Hd Hg. apply enforce_pure_equiv. apply (links_mirror_listed cfg s "g"%string d M Hd Hg). Qed.
