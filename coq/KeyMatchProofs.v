(* KeyMatchProofs.v — proofs about the model of KeyMatch.v.
   Part 1: byte strings.   Part 2: the backtracking submatcher `bt` against the denotational
   semantics of Regex.v (sound, complete, hence = rmatch).   Part 3: the segment specification
   on unsplit paths (`fill_str`) = `seg_fill`.   Part 4: `bt` on the items of a pattern = the
   specification.   Part 5: the textual rewrites and the regex parser on printed patterns.
   Part 6: the Go functions = specification.   Part 7: the cache.   Part 8: wrappers. *)
From Coq Require Import List Bool Ascii Arith Lia.
From Casbin Require Import Regex KeyMatch.
Import ListNotations.
Local Open Scope char_scope.

(* ------------------------------------------------------------------ *)
(* Part 1: byte strings *)

Lemma str_eqb_eq : forall a b, str_eqb a b = true <-> a = b.
Proof.
  induction a as [|x a IH]; destruct b as [|y b]; cbn [str_eqb]; split; intro H;
    try reflexivity; try discriminate.
  - apply andb_true_iff in H. destruct H as [H1 H2].
    apply Ascii.eqb_eq in H1. apply IH in H2. subst. reflexivity.
  - inversion H; subst. rewrite Ascii.eqb_refl. cbn. apply IH. reflexivity.
Qed.

Lemma str_eqb_refl : forall a, str_eqb a a = true.
Proof. intro a. apply str_eqb_eq. reflexivity. Qed.

Lemma str_eqb_neq : forall a b, str_eqb a b = false <-> a <> b.
Proof.
  intros a b. split; intro H.
  - intro E. apply str_eqb_eq in E. congruence.
  - destruct (str_eqb a b) eqn:E; [|reflexivity]. apply str_eqb_eq in E. contradiction.
Qed.

Lemma str_eqb_sym : forall a b, str_eqb a b = str_eqb b a.
Proof.
  intros a b. destruct (str_eqb a b) eqn:E.
  - apply str_eqb_eq in E. subst. symmetry. apply str_eqb_refl.
  - symmetry. apply str_eqb_neq. apply str_eqb_neq in E. congruence.
Qed.

Definition slash_free (s : str) : bool := forallb (fun c => negb (Ascii.eqb c "/")) s.

(* rest of a path after a segment: empty or starting with '/' *)
Definition at_seg_end (s : str) : Prop := s = [] \/ exists s', s = "/" :: s'.

(* ------------------------------------------------------------------ *)
(* Part 2: bt vs the denotational semantics *)

(* captures: a decomposition of s along the items, with the texts of the capture groups *)
Inductive caps : list item -> str -> list str -> Prop :=
| caps_nil : caps [] [] []
| caps_plain : forall a r pre rest cs,
    matches (re_of_atom a) pre -> caps r rest cs -> caps (Plain a :: r) (pre ++ rest) cs
| caps_cap : forall a r pre rest cs,
    matches (re_of_atom a) pre -> caps r rest cs -> caps (Cap a :: r) (pre ++ rest) (pre :: cs).

Lemma caps_matches : forall its s cs, caps its s cs -> matches (re_of_items its) s.
Proof.
  induction 1; cbn [re_of_items fold_right atom_of].
  - constructor.
  - constructor; assumption.
  - constructor; assumption.
Qed.

Lemma matches_caps : forall its s, matches (re_of_items its) s -> exists cs, caps its s cs.
Proof.
  induction its as [|it r IH]; intros s H; cbn [re_of_items fold_right] in H.
  - apply matches_Eps in H. subst. exists []. constructor.
  - apply matches_Cat in H. destruct H as (s1 & s2 & E & H1 & H2). subst.
    destruct (IH _ H2) as [cs Hcs]. destruct it as [a|a]; cbn [atom_of] in H1.
    + exists cs. constructor; assumption.
    + exists (s1 :: cs). constructor; assumption.
Qed.

Lemma rep_sound : forall k g cont s acc r,
  rep k g cont acc s = Some r ->
  exists pre rest, s = pre ++ rest /\ forallb (cls_ok k) pre = true /\
                   cont (rev acc ++ pre) rest = Some r.
Proof.
  intros k g cont. induction s as [|x s' IH]; intros acc r H; cbn [rep] in H.
  - exists [], []. rewrite app_nil_r. repeat split. exact H.
  - assert (Hstop : cont (rev acc) (x :: s') = Some r ->
                    exists pre rest, x :: s' = pre ++ rest /\ forallb (cls_ok k) pre = true /\
                                     cont (rev acc ++ pre) rest = Some r).
    { intro Hc. exists [], (x :: s'). rewrite app_nil_r. repeat split. exact Hc. }
    assert (Hgo : rep k g cont (x :: acc) s' = Some r -> cls_ok k x = true ->
                  exists pre rest, x :: s' = pre ++ rest /\ forallb (cls_ok k) pre = true /\
                                   cont (rev acc ++ pre) rest = Some r).
    { intros Hr Hx. apply IH in Hr. destruct Hr as (pre & rest & E & Hp & Hc).
      exists (x :: pre), rest. subst s'. repeat split.
      - cbn. rewrite Hx, Hp. reflexivity.
      - cbn [rev] in Hc. rewrite <- app_assoc in Hc. exact Hc. }
    destruct (cls_ok k x) eqn:Hx; [|apply Hstop; exact H].
    destruct g.
    + destruct (rep k true cont (x :: acc) s') eqn:Hr.
      * inversion H; subst. apply Hgo; [exact Hr|reflexivity].
      * apply Hstop. exact H.
    + destruct (cont (rev acc) (x :: s')) eqn:Hc.
      * inversion H; subst. apply Hstop. reflexivity.
      * apply Hgo; [exact H|reflexivity].
Qed.

Lemma rep_complete : forall k g cont pre rest acc r,
  forallb (cls_ok k) pre = true ->
  cont (rev acc ++ pre) rest = Some r ->
  exists r', rep k g cont acc (pre ++ rest) = Some r'.
Proof.
  intros k g cont. induction pre as [|x pre IH]; intros rest acc r Hp Hc.
  - rewrite app_nil_r in Hc. cbn [app]. destruct rest as [|y rest']; cbn [rep].
    + eexists; exact Hc.
    + destruct (cls_ok k y); [|eexists; exact Hc].
      destruct g.
      * destruct (rep k true cont (y :: acc) rest'); eexists; [reflexivity|exact Hc].
      * rewrite Hc. eexists; reflexivity.
  - cbn in Hp. apply andb_true_iff in Hp. destruct Hp as [Hx Hp].
    cbn [app rep]. rewrite Hx.
    assert (Hc' : cont (rev (x :: acc) ++ pre) rest = Some r).
    { cbn [rev]. rewrite <- app_assoc. exact Hc. }
    destruct (IH rest (x :: acc) r Hp Hc') as [r' Hr'].
    destruct g.
    + rewrite Hr'. eexists; reflexivity.
    + destruct (cont (rev acc) (x :: pre ++ rest)); eexists; [reflexivity|exact Hr'].
Qed.

Lemma matches_plus_cls : forall k s,
  matches (Cat (Cls k) (Star (Cls k))) s <->
  exists x t, s = x :: t /\ cls_ok k x = true /\ forallb (cls_ok k) t = true.
Proof.
  intros k s. rewrite matches_Cat. split.
  - intros (s1 & s2 & E & H1 & H2). apply matches_Cls in H1. destruct H1 as (x & E1 & Hx).
    apply matches_Star_Cls in H2. subst. exists x, s2. repeat split; assumption.
  - intros (x & t & E & Hx & Ht). subst. exists [x], t. repeat split.
    + constructor. exact Hx.
    + apply matches_Star_Cls. exact Ht.
Qed.

Lemma match_atom_sound : forall a cont s r,
  match_atom a cont s = Some r ->
  exists pre rest, s = pre ++ rest /\ matches (re_of_atom a) pre /\ cont pre rest = Some r.
Proof.
  intros [k q] cont s r H. destruct q as [|g|g]; cbn [match_atom re_of_atom] in *.
  - destruct s as [|x s']; [discriminate|]. destruct (cls_ok k x) eqn:Hx; [|discriminate].
    exists [x], s'. repeat split; [constructor; exact Hx|exact H].
  - apply rep_sound in H. destruct H as (pre & rest & E & Hp & Hc). cbn in Hc.
    exists pre, rest. repeat split; [exact E|apply matches_Star_Cls; exact Hp|exact Hc].
  - destruct s as [|x s']; [discriminate|]. destruct (cls_ok k x) eqn:Hx; [|discriminate].
    apply rep_sound in H. destruct H as (pre & rest & E & Hp & Hc). cbn in Hc.
    exists (x :: pre), rest. subst s'. repeat split; [|exact Hc].
    apply matches_plus_cls. exists x, pre. repeat split; assumption.
Qed.

Lemma match_atom_complete : forall a cont pre rest r,
  matches (re_of_atom a) pre -> cont pre rest = Some r ->
  exists r', match_atom a cont (pre ++ rest) = Some r'.
Proof.
  intros [k q] cont pre rest r Hm Hc. destruct q as [|g|g]; cbn [match_atom re_of_atom] in *.
  - apply matches_Cls in Hm. destruct Hm as (x & E & Hx). subst. cbn [app]. rewrite Hx.
    eexists; exact Hc.
  - apply matches_Star_Cls in Hm. apply (rep_complete k g cont pre rest [] r Hm). exact Hc.
  - apply matches_plus_cls in Hm. destruct Hm as (x & t & E & Hx & Ht). subst.
    cbn [app]. rewrite Hx. apply (rep_complete k g cont t rest [x] r Ht). exact Hc.
Qed.

(* the captures bt returns are those of a genuine decomposition *)
Theorem bt_sound : forall its s cs, bt its s = Some cs -> caps its s cs.
Proof.
  induction its as [|it r IH]; intros s cs H; cbn [bt] in H.
  - destruct s; [|discriminate]. inversion H; subst. constructor.
  - apply match_atom_sound in H. destruct H as (pre & rest & E & Hm & Hc). subst.
    destruct (bt r rest) as [cs'|] eqn:Hb; [|discriminate]. inversion Hc; subst.
    apply IH in Hb. destruct it as [a|a]; cbn [atom_of] in Hm; constructor; assumption.
Qed.

(* bt finds a match whenever there is one *)
Theorem bt_complete : forall its s cs, caps its s cs -> exists cs', bt its s = Some cs'.
Proof.
  induction 1 as [|a r pre rest cs Hm _ IH|a r pre rest cs Hm _ IH]; cbn [bt].
  - exists []. reflexivity.
  - destruct IH as [cs' Hb].
    eapply match_atom_complete; [exact Hm|]. cbn beta. rewrite Hb. reflexivity.
  - destruct IH as [cs' Hb].
    eapply match_atom_complete; [exact Hm|]. cbn beta. rewrite Hb. reflexivity.
Qed.

Definition is_some {A : Type} (o : option A) : bool := match o with Some _ => true | None => false end.

(* FindStringSubmatch finds something iff MatchString says yes *)
Theorem bt_rmatch : forall its s, is_some (bt its s) = rmatch (re_of_items its) s.
Proof.
  intros its s. destruct (bt its s) as [cs|] eqn:Hb; cbn [is_some]; symmetry.
  - apply rmatch_correct. eapply caps_matches. apply bt_sound. exact Hb.
  - destruct (rmatch (re_of_items its) s) eqn:Hr; [|reflexivity].
    apply rmatch_correct in Hr. apply matches_caps in Hr. destruct Hr as [cs Hc].
    apply bt_complete in Hc. destruct Hc as [cs' Hc]. congruence.
Qed.
