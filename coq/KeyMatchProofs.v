(* KeyMatchProofs.v — proofs about the model of KeyMatch.v.
   Part 1: byte strings.   Part 2: the backtracking submatcher `bt` against the denotational
   semantics of Regex.v (sound, complete, hence = rmatch).   Part 3: the segment specification
   on unsplit paths (`fill_str`) = `seg_fill`.   Part 4: `bt` on the items of a pattern = the
   specification.   Part 5: the textual rewrites and the regex parser on printed patterns.
   Part 6: the Go functions = specification.   Part 7: the cache.   Part 8: wrappers. *)
From Coq Require Import List Bool Ascii Arith Lia.
From Casbin Require Import Regex KeyMatch.
Import ListNotations.
Local Open Scope char_scope.

(* ------------------------------------------------------------------ *)
(* Part 1: byte strings *)

Lemma str_eqb_eq : forall a b, str_eqb a b = true <-> a = b.
Proof.
  induction a as [|x a IH]; destruct b as [|y b]; cbn [str_eqb]; split; intro H;
    try reflexivity; try discriminate.
  - apply andb_true_iff in H. destruct H as [H1 H2].
    apply Ascii.eqb_eq in H1. apply IH in H2. subst. reflexivity.
  - inversion H; subst. rewrite Ascii.eqb_refl. cbn. apply IH. reflexivity.
Qed.

Lemma str_eqb_refl : forall a, str_eqb a a = true.
Proof. intro a. apply str_eqb_eq. reflexivity. Qed.

Lemma str_eqb_neq : forall a b, str_eqb a b = false <-> a <> b.
Proof.
  intros a b. split; intro H.
  - intro E. apply str_eqb_eq in E. congruence.
  - destruct (str_eqb a b) eqn:E; [|reflexivity]. apply str_eqb_eq in E. contradiction.
Qed.

Lemma str_eqb_sym : forall a b, str_eqb a b = str_eqb b a.
Proof.
  intros a b. destruct (str_eqb a b) eqn:E.
  - apply str_eqb_eq in E. subst. symmetry. apply str_eqb_refl.
  - symmetry. apply str_eqb_neq. apply str_eqb_neq in E. congruence.
Qed.

Definition slash_free (s : str) : bool := forallb (fun c => negb (Ascii.eqb c "/")) s.

(* rest of a path after a segment: empty or starting with '/' *)
Definition at_seg_end (s : str) : Prop := s = [] \/ exists s', s = "/" :: s'.

(* ------------------------------------------------------------------ *)
(* Part 2: bt vs the denotational semantics *)

(* captures: a decomposition of s along the items, with the texts of the capture groups *)
Inductive caps : list item -> str -> list str -> Prop :=
| caps_nil : caps [] [] []
| caps_plain : forall a r pre rest cs,
    matches (re_of_atom a) pre -> caps r rest cs -> caps (Plain a :: r) (pre ++ rest) cs
| caps_cap : forall a r pre rest cs,
    matches (re_of_atom a) pre -> caps r rest cs -> caps (Cap a :: r) (pre ++ rest) (pre :: cs).

Lemma caps_matches : forall its s cs, caps its s cs -> matches (re_of_items its) s.
Proof.
  induction 1; cbn [re_of_items fold_right atom_of].
  - constructor.
  - constructor; assumption.
  - constructor; assumption.
Qed.

Lemma matches_caps : forall its s, matches (re_of_items its) s -> exists cs, caps its s cs.
Proof.
  induction its as [|it r IH]; intros s H; cbn [re_of_items fold_right] in H.
  - apply matches_Eps in H. subst. exists []. constructor.
  - apply matches_Cat in H. destruct H as (s1 & s2 & E & H1 & H2). subst.
    destruct (IH _ H2) as [cs Hcs]. destruct it as [a|a]; cbn [atom_of] in H1.
    + exists cs. constructor; assumption.
    + exists (s1 :: cs). constructor; assumption.
Qed.

Lemma rep_sound : forall k g cont s acc r,
  rep k g cont acc s = Some r ->
  exists pre rest, s = pre ++ rest /\ forallb (cls_ok k) pre = true /\
                   cont (rev acc ++ pre) rest = Some r.
Proof.
  intros k g cont. induction s as [|x s' IH]; intros acc r H; cbn [rep] in H.
  - exists [], []. split; [reflexivity|]. split; [reflexivity|]. rewrite app_nil_r. exact H.
  - assert (Hstop : cont (rev acc) (x :: s') = Some r ->
                    exists pre rest, x :: s' = pre ++ rest /\ forallb (cls_ok k) pre = true /\
                                     cont (rev acc ++ pre) rest = Some r).
    { intro Hc. exists [], (x :: s'). split; [reflexivity|]. split; [reflexivity|].
      rewrite app_nil_r. exact Hc. }
    assert (Hgo : rep k g cont (x :: acc) s' = Some r -> cls_ok k x = true ->
                  exists pre rest, x :: s' = pre ++ rest /\ forallb (cls_ok k) pre = true /\
                                   cont (rev acc ++ pre) rest = Some r).
    { intros Hr Hx. apply IH in Hr. destruct Hr as (pre & rest & E & Hp & Hc).
      exists (x :: pre), rest. subst s'. repeat split.
      - cbn. rewrite Hx, Hp. reflexivity.
      - cbn [rev] in Hc. rewrite <- app_assoc in Hc. exact Hc. }
    destruct (cls_ok k x) eqn:Hx; [|apply Hstop; exact H].
    destruct g.
    + destruct (rep k true cont (x :: acc) s') eqn:Hr.
      * inversion H; subst. apply Hgo; reflexivity.
      * apply Hstop. exact H.
    + destruct (cont (rev acc) (x :: s')) eqn:Hc.
      * inversion H; subst. apply Hstop. reflexivity.
      * apply Hgo; [exact H|reflexivity].
Qed.

Lemma rep_complete : forall k g cont pre rest acc r,
  forallb (cls_ok k) pre = true ->
  cont (rev acc ++ pre) rest = Some r ->
  exists r', rep k g cont acc (pre ++ rest) = Some r'.
Proof.
  intros k g cont. induction pre as [|x pre IH]; intros rest acc r Hp Hc.
  - rewrite app_nil_r in Hc. cbn [app]. destruct rest as [|y rest']; cbn [rep].
    + eexists; exact Hc.
    + destruct (cls_ok k y); [|eexists; exact Hc].
      destruct g.
      * destruct (rep k true cont (y :: acc) rest'); eexists; [reflexivity|exact Hc].
      * rewrite Hc. eexists; reflexivity.
  - cbn in Hp. apply andb_true_iff in Hp. destruct Hp as [Hx Hp].
    cbn [app rep]. rewrite Hx.
    assert (Hc' : cont (rev (x :: acc) ++ pre) rest = Some r).
    { cbn [rev]. rewrite <- app_assoc. exact Hc. }
    destruct (IH rest (x :: acc) r Hp Hc') as [r' Hr'].
    destruct g.
    + rewrite Hr'. eexists; reflexivity.
    + destruct (cont (rev acc) (x :: pre ++ rest)); eexists; [reflexivity|exact Hr'].
Qed.

Lemma matches_plus_cls : forall k s,
  matches (Cat (Cls k) (Star (Cls k))) s <->
  exists x t, s = x :: t /\ cls_ok k x = true /\ forallb (cls_ok k) t = true.
Proof.
  intros k s. rewrite matches_Cat. split.
  - intros (s1 & s2 & E & H1 & H2). apply matches_Cls in H1. destruct H1 as (x & E1 & Hx).
    apply matches_Star_Cls in H2. subst. exists x, s2. repeat split; assumption.
  - intros (x & t & E & Hx & Ht). subst. exists [x], t. repeat split.
    + constructor. exact Hx.
    + apply matches_Star_Cls. exact Ht.
Qed.

Lemma match_atom_sound : forall a cont s r,
  match_atom a cont s = Some r ->
  exists pre rest, s = pre ++ rest /\ matches (re_of_atom a) pre /\ cont pre rest = Some r.
Proof.
  intros [k q] cont s r H. destruct q as [|g|g]; cbn [match_atom re_of_atom] in *.
  - destruct s as [|x s']; [discriminate|]. destruct (cls_ok k x) eqn:Hx; [|discriminate].
    exists [x], s'. repeat split; [constructor; exact Hx|exact H].
  - apply rep_sound in H. destruct H as (pre & rest & E & Hp & Hc). cbn in Hc.
    exists pre, rest. repeat split; [exact E|apply matches_Star_Cls; exact Hp|exact Hc].
  - destruct s as [|x s']; [discriminate|]. destruct (cls_ok k x) eqn:Hx; [|discriminate].
    apply rep_sound in H. destruct H as (pre & rest & E & Hp & Hc). cbn in Hc.
    exists (x :: pre), rest. subst s'. repeat split; [|exact Hc].
    apply matches_plus_cls. exists x, pre. repeat split; assumption.
Qed.

Lemma match_atom_complete : forall a cont pre rest r,
  matches (re_of_atom a) pre -> cont pre rest = Some r ->
  exists r', match_atom a cont (pre ++ rest) = Some r'.
Proof.
  intros [k q] cont pre rest r Hm Hc. destruct q as [|g|g]; cbn [match_atom re_of_atom] in *.
  - apply matches_Cls in Hm. destruct Hm as (x & E & Hx). subst. cbn [app]. rewrite Hx.
    eexists; exact Hc.
  - apply matches_Star_Cls in Hm. apply (rep_complete k g cont pre rest [] r Hm). exact Hc.
  - apply matches_plus_cls in Hm. destruct Hm as (x & t & E & Hx & Ht). subst.
    cbn [app]. rewrite Hx. apply (rep_complete k g cont t rest [x] r Ht). exact Hc.
Qed.

(* the captures bt returns are those of a genuine decomposition *)
Theorem bt_sound : forall its s cs, bt its s = Some cs -> caps its s cs.
Proof.
  induction its as [|it r IH]; intros s cs H; cbn [bt] in H.
  - destruct s; [|discriminate]. inversion H; subst. constructor.
  - apply match_atom_sound in H. destruct H as (pre & rest & E & Hm & Hc). subst.
    destruct (bt r rest) as [cs'|] eqn:Hb; [|discriminate]. inversion Hc; subst.
    apply IH in Hb. destruct it as [a|a]; cbn [atom_of] in Hm; constructor; assumption.
Qed.

(* bt finds a match whenever there is one *)
Theorem bt_complete : forall its s cs, caps its s cs -> exists cs', bt its s = Some cs'.
Proof.
  induction 1 as [|a r pre rest cs Hm _ IH|a r pre rest cs Hm _ IH]; cbn [bt].
  - exists []. reflexivity.
  - destruct IH as [cs' Hb].
    eapply match_atom_complete; [exact Hm|]. cbn beta. rewrite Hb. reflexivity.
  - destruct IH as [cs' Hb].
    eapply match_atom_complete; [exact Hm|]. cbn beta. rewrite Hb. reflexivity.
Qed.

Definition is_some {A : Type} (o : option A) : bool := match o with Some _ => true | None => false end.

(* FindStringSubmatch finds something iff MatchString says yes *)
Theorem bt_rmatch : forall its s, is_some (bt its s) = rmatch (re_of_items its) s.
Proof.
  intros its s. destruct (bt its s) as [cs|] eqn:Hb; cbn [is_some]; symmetry.
  - apply rmatch_correct. eapply caps_matches. apply bt_sound. exact Hb.
  - destruct (rmatch (re_of_items its) s) eqn:Hr; [|reflexivity].
    apply rmatch_correct in Hr. apply matches_caps in Hr. destruct Hr as [cs Hc].
    apply bt_complete in Hc. destruct Hc as [cs' Hc]. congruence.
Qed.

(* ------------------------------------------------------------------ *)
(* Part 3: the specification read off the unsplit path *)

Fixpoint span_ns (s : str) : str * str :=
  match s with
  | [] => ([], [])
  | c :: r => if Ascii.eqb c "/" then ([], s) else let '(a, b) := span_ns r in (c :: a, b)
  end.

Lemma span_ns_spec : forall s a b, span_ns s = (a, b) ->
  s = a ++ b /\ slash_free a = true /\ at_seg_end b.
Proof.
  induction s as [|c r IH]; intros a b H; cbn [span_ns] in H.
  - inversion H; subst. repeat split. left. reflexivity.
  - destruct (Ascii.eqb c "/") eqn:Ec.
    + inversion H; subst. apply Ascii.eqb_eq in Ec. subst. repeat split. right. eexists; reflexivity.
    + destruct (span_ns r) as [a' b'] eqn:Er. inversion H; subst.
      destruct (IH _ _ eq_refl) as (E & Hs & Hb). subst r. repeat split.
      * unfold slash_free in *. cbn [forallb]. rewrite Ec, Hs. reflexivity.
      * exact Hb.
Qed.

Lemma span_ns_app : forall v rest, slash_free v = true -> at_seg_end rest ->
  span_ns (v ++ rest) = (v, rest).
Proof.
  induction v as [|c v IH]; intros rest Hv Hr; cbn [app].
  - destruct Hr as [E|[r' E]]; subst; [reflexivity|]. cbn. reflexivity.
  - cbn in Hv. apply andb_true_iff in Hv. destruct Hv as [Hc Hv].
    cbn [span_ns]. apply negb_true_iff in Hc. rewrite Hc. rewrite (IH rest Hv Hr). reflexivity.
Qed.

Fixpoint fill_str (sgs : list seg) (st : bool) (s : str) : option (list str) :=
  match sgs with
  | [] =>
      if st then match s with c :: _ => if Ascii.eqb c "/" then Some [] else None | [] => None end
      else match s with [] => Some [] | _ :: _ => None end
  | sg :: r =>
      match s with
      | c :: s1 =>
          if Ascii.eqb c "/" then
            let '(v, s2) := span_ns s1 in
            match sg with
            | Lit l => if str_eqb l v then fill_str r st s2 else None
            | Par _ =>
                if nonempty v then
                  match fill_str r st s2 with Some vs => Some (v :: vs) | None => None end
                else None
            end
          else None
      | [] => None
      end
  end.

Lemma split_slash_span : forall s v s2, span_ns s = (v, s2) ->
  split_slash s = v :: match s2 with [] => [] | _ :: s2' => split_slash s2' end.
Proof.
  induction s as [|c r IH]; intros v s2 H; cbn [span_ns] in H.
  - inversion H; subst. reflexivity.
  - cbn [split_slash]. destruct (Ascii.eqb c "/") eqn:Ec.
    + inversion H; subst. reflexivity.
    + destruct (span_ns r) as [a b] eqn:Er. inversion H; subst.
      rewrite (IH _ _ eq_refl). reflexivity.
Qed.

Lemma path_segments_rest : forall s2, at_seg_end s2 ->
  path_segments s2 = Some (match s2 with [] => [] | _ :: s2' => split_slash s2' end).
Proof. intros s2 [E|[s' E]]; subst; reflexivity. Qed.

Lemma split_slash_nonempty : forall s, split_slash s <> [].
Proof.
  intros [|c r]; cbn [split_slash]; [discriminate|].
  destruct (Ascii.eqb c "/"); [discriminate|]. destruct (split_slash r); discriminate.
Qed.

Theorem fill_str_seg_fill : forall sgs st s,
  fill_str sgs st s = seg_fill {| segs := sgs; star := st |} s.
Proof.
  unfold seg_fill. cbn [segs star].
  induction sgs as [|sg r IH]; intros st s.
  - cbn [fill_str]. destruct s as [|c s1]; cbn [path_segments].
    + destruct st; reflexivity.
    + destruct (Ascii.eqb c "/"); [|destruct st; reflexivity].
      destruct (split_slash s1) eqn:E; [apply split_slash_nonempty in E; contradiction|].
      destruct st; reflexivity.
  - cbn [fill_str]. destruct s as [|c s1]; cbn [path_segments]; [destruct sg; reflexivity|].
    destruct (Ascii.eqb c "/"); [|reflexivity].
    destruct (span_ns s1) as [v s2] eqn:Es.
    rewrite (split_slash_span _ _ _ Es).
    destruct (span_ns_spec _ _ _ Es) as (_ & _ & Hend).
    rewrite IH, (path_segments_rest _ Hend). cbn [fill_segs]. reflexivity.
Qed.

(* ------------------------------------------------------------------ *)
(* Part 4: bt on the items of a pattern *)

Definition slash_item : item := Plain (Atom (CChr "/") QOne).
Definition lit_items (l : str) : list item := map (fun c => Plain (Atom (CChr c) QOne)) l.
Definition par_item (cap g : bool) : item :=
  if cap then Cap (Atom (CNot "/") (QPlus g)) else Plain (Atom (CNot "/") (QPlus g)).
Definition seg_its (pi : item) (sg : seg) : list item :=
  slash_item :: match sg with Lit l => lit_items l | Par _ => [pi] end.
Definition tail_items (st : bool) : list item :=
  if st then [slash_item; Plain (Atom CAny (QStar true))] else [].
Definition segs_items (pi : item) (l : list seg) (st : bool) : list item :=
  flat_map (seg_its pi) l ++ tail_items st.

(* literal segments without '/' *)
Definition lits_slash_free (l : list seg) : bool :=
  forallb (fun sg => match sg with Lit x => slash_free x | Par _ => true end) l.

Definition starts_slash (its : list item) : Prop := its = [] \/ exists r, its = slash_item :: r.

Lemma segs_items_starts : forall pi l st, starts_slash (segs_items pi l st).
Proof.
  intros pi [|sg r] st; unfold segs_items; cbn [flat_map app].
  - destruct st; [right; eexists; reflexivity|left; reflexivity].
  - right. unfold seg_its at 1. cbn [app]. eexists; reflexivity.
Qed.

Lemma bt_starts_noslash : forall its x s, starts_slash its -> Ascii.eqb x "/" = false ->
  bt its (x :: s) = None.
Proof.
  intros its x s [E|[r E]] Hx; subst; cbn [bt]; [reflexivity|].
  cbn [slash_item atom_of match_atom cls_ok]. rewrite Hx. reflexivity.
Qed.

Lemma bt_lit : forall rest_its l v s2, starts_slash rest_its ->
  slash_free l = true -> slash_free v = true -> at_seg_end s2 ->
  bt (lit_items l ++ rest_its) (v ++ s2) = if str_eqb l v then bt rest_its s2 else None.
Proof.
  intros rest_its. induction l as [|a l IH]; intros v s2 Hst Hl Hv Hend.
  - cbn [lit_items map app]. destruct v as [|x v']; cbn [str_eqb app]; [reflexivity|].
    cbn in Hv. apply andb_true_iff in Hv. destruct Hv as [Hx _]. apply negb_true_iff in Hx.
    apply bt_starts_noslash; assumption.
  - cbn in Hl. apply andb_true_iff in Hl. destruct Hl as [Ha Hl]. apply negb_true_iff in Ha.
    cbn [lit_items map app bt atom_of match_atom]. fold (lit_items l).
    destruct v as [|x v']; cbn [app str_eqb].
    + destruct Hend as [E|[s' E]]; subst; [reflexivity|].
      cbn [cls_ok]. rewrite Ascii.eqb_sym, Ha. reflexivity.
    + cbn in Hv. apply andb_true_iff in Hv. destruct Hv as [_ Hv].
      cbn [cls_ok]. rewrite (Ascii.eqb_sym a x).
      destruct (Ascii.eqb x a); cbn [andb]; [|reflexivity].
      rewrite (IH v' s2 Hst Hl Hv Hend). destruct (str_eqb l v'); [|reflexivity].
      destruct (bt rest_its s2); reflexivity.
Qed.

(* a repetition of [^/] followed by something that cannot start inside a segment takes the
   whole segment, greedy or lazy *)
Lemma rep_seg : forall g cont v rest acc,
  (forall pre x r, Ascii.eqb x "/" = false -> cont pre (x :: r) = None) ->
  slash_free v = true -> at_seg_end rest ->
  rep (CNot "/") g cont acc (v ++ rest) = cont (rev acc ++ v) rest.
Proof.
  intros g cont. induction v as [|x v IH]; intros rest acc Hcont Hv Hend.
  - rewrite app_nil_r. cbn [app]. destruct Hend as [E|[r' E]]; subst; cbn [rep]; [reflexivity|].
    cbn [cls_ok]. rewrite Ascii.eqb_refl. reflexivity.
  - cbn in Hv. apply andb_true_iff in Hv. destruct Hv as [Hx Hv].
    cbn [app rep cls_ok]. rewrite Hx. apply negb_true_iff in Hx.
    rewrite (IH rest (x :: acc) Hcont Hv Hend). cbn [rev]. rewrite <- app_assoc. cbn [app].
    rewrite (Hcont (rev acc) x (v ++ rest) Hx).
    destruct g; destruct (cont (rev acc ++ x :: v) rest); reflexivity.
Qed.

Lemma rep_any_all : forall cont s acc, nl_free s = true ->
  (forall pre, cont pre [] = Some []) ->
  rep CAny true cont acc s = Some [].
Proof.
  intros cont. induction s as [|x s IH]; intros acc Hs Hc; cbn [rep].
  - apply Hc.
  - unfold nl_free in Hs. cbn [forallb] in Hs. apply andb_true_iff in Hs. destruct Hs as [Hx Hs].
    cbn [cls_ok]. rewrite Hx. rewrite (IH (x :: acc) Hs Hc). reflexivity.
Qed.

Lemma nl_free_app : forall a b, nl_free (a ++ b) = nl_free a && nl_free b.
Proof. intros a b. unfold nl_free. apply forallb_app. Qed.

Definition proj (cap : bool) (vs : list str) : list str := if cap then vs else [].

Theorem bt_segs : forall cap g l st s,
  lits_slash_free l = true -> nl_free s = true ->
  bt (segs_items (par_item cap g) l st) s = option_map (proj cap) (fill_str l st s).
Proof.
  intros cap g. induction l as [|sg r IH]; intros st s Hl Hs.
  - unfold segs_items. destruct st; cbn [flat_map app fill_str tail_items].
    + destruct s as [|c s1]; cbn [bt slash_item atom_of match_atom]; [reflexivity|].
      cbn [cls_ok]. destruct (Ascii.eqb c "/"); [|reflexivity].
      cbn in Hs. apply andb_true_iff in Hs. destruct Hs as [_ Hs].
      rewrite rep_any_all; [destruct cap; reflexivity|exact Hs|reflexivity].
    + cbn [bt]. destruct s; [destruct cap; reflexivity|reflexivity].
  - cbn in Hl. apply andb_true_iff in Hl. destruct Hl as [Hsg Hl].
    unfold segs_items. cbn [flat_map]. unfold seg_its at 1. cbn [app].
    rewrite <- app_assoc. fold (segs_items (par_item cap g) r st).
    cbn [bt slash_item atom_of match_atom fill_str].
    destruct s as [|c s1]; [reflexivity|]. cbn [cls_ok].
    destruct (Ascii.eqb c "/") eqn:Ec; [|reflexivity].
    cbn in Hs. apply andb_true_iff in Hs. destruct Hs as [_ Hs1].
    destruct (span_ns s1) as [v s2] eqn:Es.
    destruct (span_ns_spec _ _ _ Es) as (E & Hv & Hend). subst s1.
    rewrite nl_free_app in Hs1. apply andb_true_iff in Hs1. destruct Hs1 as [_ Hs2].
    pose proof (segs_items_starts (par_item cap g) r st) as Hst.
    destruct sg as [l0|n].
    + rewrite (bt_lit _ l0 v s2 Hst Hsg Hv Hend).
      destruct (str_eqb l0 v); [|reflexivity].
      rewrite (IH st s2 Hl Hs2). destruct (fill_str r st s2); reflexivity.
    + cbn [app].
      assert (Hcont : forall it, (it = Cap (Atom (CNot "/") (QPlus g)) \/ it = Plain (Atom (CNot "/") (QPlus g))) ->
        bt (it :: segs_items (par_item cap g) r st) (v ++ s2) =
        if nonempty v then
          match bt (segs_items (par_item cap g) r st) s2 with
          | Some cs => Some (match it with Cap _ => v :: cs | Plain _ => cs end)
          | None => None
          end
        else None).
      { intros it Hit. cbn [bt].
        assert (Ha : atom_of it = Atom (CNot "/") (QPlus g)) by (destruct Hit; subst; reflexivity).
        rewrite Ha. cbn [match_atom]. destruct v as [|x v']; cbn [app nonempty].
        - destruct Hend as [E|[s' E]]; subst; [reflexivity|]. cbn [cls_ok]. rewrite Ascii.eqb_refl. reflexivity.
        - cbn in Hv. apply andb_true_iff in Hv. destruct Hv as [Hx Hv']. cbn [cls_ok]. rewrite Hx.
          rewrite rep_seg; [reflexivity| |exact Hv'|exact Hend].
          intros pre y rr Hy. rewrite (bt_starts_noslash _ y rr Hst Hy). reflexivity. }
      unfold par_item at 1. destruct cap.
      * rewrite Hcont by (left; reflexivity). destruct (nonempty v); [|reflexivity].
        rewrite (IH st s2 Hl Hs2). destruct (fill_str r st s2); reflexivity.
      * rewrite Hcont by (right; reflexivity). destruct (nonempty v); [|reflexivity].
        rewrite (IH st s2 Hl Hs2). destruct (fill_str r st s2); reflexivity.
Qed.

(* ------------------------------------------------------------------ *)
(* Part 5: the textual rewrites and the regex parser on printed patterns *)

Definition rx_segs (repl : str) (l : list seg) : str :=
  flat_map (fun sg => "/" :: match sg with Lit x => x | Par _ => repl end) l.

(* the texts FindAllString returns: the printed placeholders *)
Fixpoint keys_of (sy : syntax) (l : list seg) : list str :=
  match l with
  | [] => []
  | Lit _ :: r => keys_of sy r
  | Par n :: r => print_seg sy (Par n) :: keys_of sy r
  end.

Definition star_rx (st : bool) : str := if st then ["/"; "."; "*"] else [].

Lemma at_seg_end_print : forall sy l rest, at_seg_end rest -> at_seg_end (print_segs sy l ++ rest).
Proof.
  intros sy [|sg r] rest H; cbn [print_segs flat_map app]; [exact H|].
  right. eexists. reflexivity.
Qed.

Lemma is_meta_false : forall c, is_meta c = false ->
  Ascii.eqb c "\" = false /\ Ascii.eqb c "." = false /\ Ascii.eqb c "+" = false /\
  Ascii.eqb c "*" = false /\ Ascii.eqb c "?" = false /\ Ascii.eqb c "(" = false /\
  Ascii.eqb c ")" = false /\ Ascii.eqb c "|" = false /\ Ascii.eqb c "[" = false /\
  Ascii.eqb c "]" = false /\ Ascii.eqb c "{" = false /\ Ascii.eqb c "}" = false /\
  Ascii.eqb c "^" = false /\ Ascii.eqb c "$" = false.
Proof.
  intros c H. unfold is_meta in H. cbn [existsb] in H.
  repeat (apply orb_false_iff in H; destruct H as [? H]). repeat split; assumption.
Qed.

(* facts about the bytes of a well-formed segment *)
Lemma lit_char_facts : forall sy c, lit_char sy c = true ->
  Ascii.eqb c "/" = false /\ Ascii.eqb c "*" = false /\
  (sy = SColon -> Ascii.eqb c ":" = false) /\
  (sy <> SPlain -> is_meta c = false).
Proof.
  intros sy c H. destruct sy; cbn [lit_char] in H;
    repeat (apply andb_true_iff in H; destruct H as [H ?]);
    repeat match goal with X : negb _ = true |- _ => apply negb_true_iff in X end.
  - split; [assumption|]. split; [assumption|]. split; [discriminate|]. intro X. contradiction.
  - match goal with X : is_meta c = false |- _ => pose proof (is_meta_false c X) as M end.
    split; [assumption|]. split; [tauto|]. split; [intros _; assumption|]. intros _. assumption.
  - match goal with X : is_meta c = false |- _ => pose proof (is_meta_false c X) as M end.
    split; [assumption|]. split; [tauto|]. split; [discriminate|]. intros _. assumption.
Qed.

Lemma lit_slash_free : forall sy l, forallb (lit_char sy) l = true -> slash_free l = true.
Proof.
  intros sy. induction l as [|c l IH]; intro H; [reflexivity|].
  cbn in H. apply andb_true_iff in H. destruct H as [Hc H].
  unfold slash_free. cbn [forallb]. destruct (lit_char_facts _ _ Hc) as (E & _).
  rewrite E. cbn. apply IH. exact H.
Qed.

Lemma wf_lits_slash_free : forall sy l, forallb (wf_seg sy) l = true -> lits_slash_free l = true.
Proof.
  intros sy. induction l as [|sg r IH]; intro H; [reflexivity|].
  cbn in H. apply andb_true_iff in H. destruct H as [Hsg H].
  cbn [lits_slash_free forallb]. fold (lits_slash_free r). rewrite (IH H), andb_true_r.
  destruct sg as [l0|n]; [|reflexivity]. apply (lit_slash_free sy). exact Hsg.
Qed.

(* --- strings.Replace "/*" -> "/.*" --- *)

Lemma rss_noslash : forall body rest, slash_free body = true ->
  replace_slash_star (body ++ rest) = body ++ replace_slash_star rest.
Proof.
  induction body as [|c b IH]; intros rest H; [reflexivity|].
  unfold slash_free in H. cbn [forallb] in H. apply andb_true_iff in H. destruct H as [Hc H].
  apply negb_true_iff in Hc. cbn [app replace_slash_star]. rewrite Hc. cbn [andb].
  rewrite <- (IH rest H). destruct (b ++ rest); reflexivity.
Qed.

Definition head_not_star (s : str) : Prop :=
  match s with c :: _ => Ascii.eqb c "*" = false | [] => True end.

Lemma rss_seg : forall body rest, slash_free body = true -> head_not_star (body ++ rest) ->
  replace_slash_star ("/" :: body ++ rest) = "/" :: body ++ replace_slash_star rest.
Proof.
  intros body rest Hb Hh. rewrite <- (rss_noslash body rest Hb).
  cbn [replace_slash_star]. destruct (body ++ rest) as [|c2 s2]; [reflexivity|].
  cbn in Hh. rewrite Hh. rewrite andb_false_r. reflexivity.
Qed.

Lemma print_seg_ok : forall sy sg, wf_seg sy sg = true ->
  slash_free (print_seg sy sg) = true /\
  (print_seg sy sg = [] \/ head_not_star (print_seg sy sg) /\ print_seg sy sg <> []).
Proof.
  intros sy [l|n] H; cbn [wf_seg print_seg] in *.
  - split; [apply (lit_slash_free sy); exact H|].
    destruct l as [|c l]; [left; reflexivity|right]. split; [|discriminate].
    cbn in H. apply andb_true_iff in H. destruct H as [Hc _].
    destruct (lit_char_facts _ _ Hc) as (_ & E & _). exact E.
  - apply andb_true_iff in H. destruct H as [Hne Hn].
    assert (Hsf : slash_free n = true).
    { unfold slash_free. clear Hne. induction n as [|c n IH]; [reflexivity|].
      cbn in Hn. apply andb_true_iff in Hn. destruct Hn as [Hc Hn]. cbn [forallb].
      rewrite (IH Hn), andb_true_r. destruct sy; cbn [name_char] in Hc; [discriminate|exact Hc|].
      apply andb_true_iff in Hc. tauto. }
    destruct sy.
    + destruct n; cbn in *; discriminate.
    + split; [exact Hsf|]. right. split; [reflexivity|discriminate].
    + split; [|right; split; [reflexivity|discriminate]].
      unfold slash_free in *. cbn [forallb]. rewrite forallb_app, Hsf. reflexivity.
Qed.

Lemma rss_print_segs : forall sy l rest, forallb (wf_seg sy) l = true -> at_seg_end rest ->
  replace_slash_star (print_segs sy l ++ rest) = print_segs sy l ++ replace_slash_star rest.
Proof.
  intros sy. induction l as [|sg r IH]; intros rest H Hend; [reflexivity|].
  cbn in H. apply andb_true_iff in H. destruct H as [Hsg H].
  cbn [print_segs flat_map]. fold (print_segs sy r). cbn [app]. rewrite <- !app_assoc.
  destruct (print_seg_ok _ _ Hsg) as (Hsf & Hhd).
  rewrite rss_seg; [rewrite (IH rest H Hend); reflexivity|exact Hsf|].
  destruct Hhd as [E|[Hh Hne]].
  - rewrite E. cbn [app]. destruct (at_seg_end_print sy r rest Hend) as [E2|[s' E2]]; rewrite E2; exact I || reflexivity.
  - destruct (print_seg sy sg); [contradiction|exact Hh].
Qed.

Lemma rss_print : forall sy p, wf_pattern sy p = true ->
  replace_slash_star (print sy p) = print_segs sy (segs p) ++ star_rx (star p).
Proof.
  intros sy p H. unfold print. destruct (star p).
  - rewrite rss_print_segs; [reflexivity|exact H|right; eexists; reflexivity].
  - rewrite rss_print_segs; [reflexivity|exact H|left; reflexivity].
Qed.

(* --- `:[^/]+` --- *)

Lemma rw_colon_nocolon : forall repl x rest o ks,
  forallb (fun c => negb (Ascii.eqb c ":")) x = true ->
  rw_colon repl rest None = (o, ks) ->
  rw_colon repl (x ++ rest) None = (x ++ o, ks).
Proof.
  intros repl. induction x as [|c x IH]; intros rest o ks Hx Hr; [exact Hr|].
  cbn in Hx. apply andb_true_iff in Hx. destruct Hx as [Hc Hx]. apply negb_true_iff in Hc.
  cbn [app rw_colon]. rewrite Hc. rewrite (IH rest o ks Hx Hr). reflexivity.
Qed.

Lemma rw_colon_in : forall repl n rest k o ks,
  slash_free n = true -> at_seg_end rest ->
  rw_colon repl rest None = (o, ks) ->
  rw_colon repl (n ++ rest) (Some k) = (o, rev (rev n ++ k) :: ks).
Proof.
  intros repl. induction n as [|c n IH]; intros rest k o ks Hn Hend Hr.
  - cbn [app rev]. destruct Hend as [E|[r' E]]; subst rest.
    + cbn in Hr. inversion Hr; subst. reflexivity.
    + cbn [rw_colon] in *. rewrite Ascii.eqb_refl.
      change (Ascii.eqb "/" ":") with false in Hr. cbn iota in Hr.
      destruct (rw_colon repl r' None) as [o2 ks2]. inversion Hr; subst. reflexivity.
  - unfold slash_free in Hn. cbn [forallb] in Hn. apply andb_true_iff in Hn. destruct Hn as [Hc Hn].
    apply negb_true_iff in Hc. cbn [app rw_colon]. rewrite Hc.
    rewrite (IH rest (c :: k) o ks Hn Hend Hr). cbn [rev]. rewrite <- app_assoc. reflexivity.
Qed.

Lemma rw_colon_par : forall repl n rest o ks,
  nonempty n = true -> slash_free n = true -> at_seg_end rest ->
  rw_colon repl rest None = (o, ks) ->
  rw_colon repl ("/" :: ":" :: n ++ rest) None = ("/" :: repl ++ o, (":" :: n) :: ks).
Proof.
  intros repl n rest o ks Hne Hn Hend Hr.
  destruct n as [|d n']; [discriminate|].
  assert (Hd : Ascii.eqb d "/" = false).
  { unfold slash_free in Hn. cbn [forallb] in Hn. apply andb_true_iff in Hn.
    destruct Hn as [Hd _]. apply negb_true_iff in Hd. exact Hd. }
  cbn [rw_colon]. change (Ascii.eqb "/" ":") with false. cbn iota.
  rewrite Ascii.eqb_refl. cbn [app]. rewrite Hd.
  change (d :: n' ++ rest) with ((d :: n') ++ rest).
  rewrite (rw_colon_in repl (d :: n') rest [":"] o ks Hn Hend Hr).
  rewrite rev_app_distr, rev_involutive. reflexivity.
Qed.

Lemma name_colon_slash_free : forall n, forallb (name_char SColon) n = true -> slash_free n = true.
Proof. intros n H. exact H. Qed.

Lemma rw_colon_print : forall repl l rest o ks,
  forallb (wf_seg SColon) l = true -> at_seg_end rest ->
  rw_colon repl rest None = (o, ks) ->
  rw_colon repl (print_segs SColon l ++ rest) None = (rx_segs repl l ++ o, keys_of SColon l ++ ks).
Proof.
  intros repl. induction l as [|sg r IH]; intros rest o ks H Hend Hr; [exact Hr|].
  cbn in H. apply andb_true_iff in H. destruct H as [Hsg H].
  pose proof (IH rest o ks H Hend Hr) as IH'.
  pose proof (at_seg_end_print SColon r rest Hend) as Hend'.
  cbn [print_segs flat_map rx_segs keys_of]. fold (print_segs SColon r). fold (rx_segs repl r).
  destruct sg as [l0|n]; cbn [print_seg].
  - cbn [wf_seg] in Hsg. cbn [app]. rewrite <- !app_assoc.
    change ("/" :: l0 ++ print_segs SColon r ++ rest) with (("/" :: l0) ++ (print_segs SColon r ++ rest)).
    rewrite (rw_colon_nocolon repl ("/" :: l0) _ (rx_segs repl r ++ o) (keys_of SColon r ++ ks));
      [reflexivity| |exact IH'].
    cbn [forallb]. change (negb (Ascii.eqb "/" ":")) with true. cbn [andb].
    clear - Hsg. induction l0 as [|c l0 IHl]; [reflexivity|].
    cbn [forallb] in Hsg. apply andb_true_iff in Hsg. destruct Hsg as [Hc Hsg]. cbn [forallb].
    rewrite (IHl Hsg), andb_true_r. destruct (lit_char_facts _ _ Hc) as (_ & _ & E & _).
    rewrite (E eq_refl). reflexivity.
  - cbn [wf_seg] in Hsg. apply andb_true_iff in Hsg. destruct Hsg as [Hne Hn].
    cbn [app]. rewrite <- !app_assoc.
    rewrite (rw_colon_par repl n _ _ _ Hne Hn Hend' IH'). reflexivity.
Qed.

(* --- `\{[^/]+\}` greedy and lazy --- *)

Lemma rw_brace_nobrace : forall g repl x rest o ks,
  forallb (fun c => negb (Ascii.eqb c "{")) x = true ->
  rw_brace g repl rest None = (o, ks) ->
  rw_brace g repl (x ++ rest) None = (x ++ o, ks).
Proof.
  intros g repl. induction x as [|c x IH]; intros rest o ks Hx Hr; [exact Hr|].
  cbn in Hx. apply andb_true_iff in Hx. destruct Hx as [Hc Hx]. apply negb_true_iff in Hc.
  cbn [app rw_brace]. rewrite Hc. rewrite (IH rest o ks Hx Hr). reflexivity.
Qed.

Lemma rw_brace_in : forall g repl n tl k,
  forallb (name_char SBrace) n = true ->
  rw_brace g repl (n ++ tl) (Some (k, None)) = rw_brace g repl tl (Some (rev n ++ k, None)).
Proof.
  intros g repl. induction n as [|c n IH]; intros tl k Hn; [reflexivity|].
  cbn [forallb name_char] in Hn. apply andb_true_iff in Hn. destruct Hn as [Hc Hn].
  apply andb_true_iff in Hc. destruct Hc as [Hc1 Hc2].
  apply negb_true_iff in Hc1. apply negb_true_iff in Hc2.
  cbn [app rw_brace]. rewrite Hc1, Hc2. cbn [andb].
  rewrite (IH tl (c :: k) Hn). cbn [rev]. rewrite <- app_assoc. reflexivity.
Qed.

Lemma rw_brace_par : forall g repl n rest o ks,
  nonempty n = true -> forallb (name_char SBrace) n = true -> at_seg_end rest ->
  rw_brace g repl rest None = (o, ks) ->
  rw_brace g repl ("/" :: "{" :: n ++ "}" :: rest) None =
  ("/" :: repl ++ o, ("{" :: n ++ ["}"]) :: ks).
Proof.
  intros g repl n rest o ks Hne Hn Hend Hr.
  cbn [rw_brace]. change (Ascii.eqb "/" "{") with false. cbn iota.
  rewrite Ascii.eqb_refl. rewrite (rw_brace_in g repl n ("}" :: rest) [] Hn). rewrite app_nil_r.
  cbn [rw_brace]. change (Ascii.eqb "}" "/") with false. cbn iota. rewrite Ascii.eqb_refl.
  assert (Hrn : nonempty (rev n) = true).
  { destruct n as [|d n']; [discriminate|]. cbn [rev]. destruct (rev n'); reflexivity. }
  rewrite Hrn. cbn [andb]. destruct g.
  - destruct Hend as [E|[r' E]]; subst rest.
    + cbn in Hr. inversion Hr; subst. cbn [rw_brace brace_flush rev app].
      rewrite rev_involutive, !app_nil_r. reflexivity.
    + cbn [rw_brace] in *. rewrite Ascii.eqb_refl.
      change (Ascii.eqb "/" "{") with false in Hr. cbn iota in Hr.
      destruct (rw_brace true repl r' None) as [o2 ks2]. inversion Hr; subst.
      cbn [brace_flush rev app]. rewrite rev_involutive. reflexivity.
  - rewrite Hr. rewrite rev_involutive. reflexivity.
Qed.

Lemma rw_brace_print : forall g repl l rest o ks,
  forallb (wf_seg SBrace) l = true -> at_seg_end rest ->
  rw_brace g repl rest None = (o, ks) ->
  rw_brace g repl (print_segs SBrace l ++ rest) None =
  (rx_segs repl l ++ o, keys_of SBrace l ++ ks).
Proof.
  intros g repl. induction l as [|sg r IH]; intros rest o ks H Hend Hr; [exact Hr|].
  cbn in H. apply andb_true_iff in H. destruct H as [Hsg H].
  pose proof (IH rest o ks H Hend Hr) as IH'.
  pose proof (at_seg_end_print SBrace r rest Hend) as Hend'.
  cbn [print_segs flat_map rx_segs keys_of]. fold (print_segs SBrace r). fold (rx_segs repl r).
  destruct sg as [l0|n]; cbn [print_seg].
  - cbn [wf_seg] in Hsg. cbn [app]. rewrite <- !app_assoc.
    change ("/" :: l0 ++ print_segs SBrace r ++ rest) with (("/" :: l0) ++ (print_segs SBrace r ++ rest)).
    rewrite (rw_brace_nobrace g repl ("/" :: l0) _ (rx_segs repl r ++ o) (keys_of SBrace r ++ ks));
      [reflexivity| |exact IH'].
    cbn [forallb]. change (negb (Ascii.eqb "/" "{")) with true. cbn [andb].
    clear - Hsg. induction l0 as [|c l0 IHl]; [reflexivity|].
    cbn [forallb] in Hsg. apply andb_true_iff in Hsg. destruct Hsg as [Hc Hsg]. cbn [forallb].
    rewrite (IHl Hsg), andb_true_r. destruct (lit_char_facts _ _ Hc) as (_ & _ & _ & M).
    assert (Hm : is_meta c = false) by (apply M; discriminate).
    destruct (is_meta_false c Hm) as (_&_&_&_&_&_&_&_&_&_&E&_). rewrite E. reflexivity.
  - cbn [wf_seg] in Hsg. apply andb_true_iff in Hsg. destruct Hsg as [Hne Hn].
    cbn [app]. rewrite <- !app_assoc. cbn [app].
    rewrite (rw_brace_par g repl n _ _ _ Hne Hn Hend' IH'). reflexivity.
Qed.

Lemma rw_colon_star_rx : forall repl st, rw_colon repl (star_rx st) None = (star_rx st, []).
Proof. intros repl [|]; reflexivity. Qed.

Lemma rw_brace_star_rx : forall g repl st, rw_brace g repl (star_rx st) None = (star_rx st, []).
Proof. intros g repl [|]; reflexivity. Qed.

Lemma at_seg_end_star_rx : forall st, at_seg_end (star_rx st).
Proof. intros [|]; [right; eexists; reflexivity|left; reflexivity]. Qed.

(* --- the parser --- *)

Lemma parse_plain_chars : forall l rest acc,
  forallb (fun c => negb (is_meta c)) l = true ->
  parse_go (l ++ rest) (acc, None) = parse_go rest (rev (lit_items l) ++ acc, None).
Proof.
  induction l as [|c l IH]; intros rest acc H; [reflexivity|].
  cbn [forallb] in H. apply andb_true_iff in H. destruct H as [Hc H]. apply negb_true_iff in Hc.
  destruct (is_meta_false c Hc) as (_&E1&E2&E3&E4&E5&E6&_&E7&_&_&_&_&E8).
  cbn [app parse_go]. rewrite E8, E7. unfold pstep. rewrite E5, E6, E3, E2, E4, E1, Hc.
  cbn [orb push]. rewrite (IH rest _ H). cbn [lit_items map rev]. rewrite <- app_assoc. reflexivity.
Qed.

Lemma parse_seg_re : forall rest acc,
  parse_go (seg_re ++ rest) (acc, None) = parse_go rest (par_item false true :: acc, None).
Proof. reflexivity. Qed.

Lemma parse_cap_re : forall rest acc,
  parse_go (cap_re ++ rest) (acc, None) = parse_go rest (par_item true true :: acc, None).
Proof. reflexivity. Qed.

Lemma parse_cap_lazy_re : forall rest acc,
  parse_go (cap_lazy_re ++ rest) (acc, None) = parse_go rest (par_item true false :: acc, None).
Proof. reflexivity. Qed.

Lemma parse_rx_segs : forall repl pi,
  (forall rest acc, parse_go (repl ++ rest) (acc, None) = parse_go rest (pi :: acc, None)) ->
  forall l rest acc,
  forallb (fun sg => match sg with
                     | Lit x => forallb (fun c => negb (is_meta c)) x
                     | Par _ => true end) l = true ->
  parse_go (rx_segs repl l ++ rest) (acc, None) =
  parse_go rest (rev (flat_map (seg_its pi) l) ++ acc, None).
Proof.
  intros repl pi Hrepl. induction l as [|sg r IH]; intros rest acc H; [reflexivity|].
  cbn [forallb] in H. apply andb_true_iff in H. destruct H as [Hsg H].
  cbn [rx_segs flat_map]. fold (rx_segs repl r). unfold seg_its at 1.
  cbn [app]. rewrite <- app_assoc.
  assert (Hs : forall tl acc0, parse_go ("/" :: tl) (acc0, None) = parse_go tl (slash_item :: acc0, None))
    by reflexivity.
  rewrite Hs. destruct sg as [x|n].
  - rewrite (parse_plain_chars x _ _ Hsg). rewrite (IH rest _ H).
    cbn [rev]. rewrite !rev_app_distr. cbn [rev app]. rewrite <- !app_assoc. reflexivity.
  - rewrite Hrepl. rewrite (IH rest _ H).
    cbn [rev]. rewrite !rev_app_distr. cbn [rev app]. rewrite <- !app_assoc. reflexivity.
Qed.

Lemma wf_lits_plain : forall sy l, sy <> SPlain -> forallb (wf_seg sy) l = true ->
  forallb (fun sg => match sg with
                     | Lit x => forallb (fun c => negb (is_meta c)) x
                     | Par _ => true end) l = true.
Proof.
  intros sy l Hsy. induction l as [|sg r IH]; intro H; [reflexivity|].
  cbn [forallb] in H. apply andb_true_iff in H. destruct H as [Hsg H].
  cbn [forallb]. rewrite (IH H), andb_true_r. destruct sg as [x|n]; [|reflexivity].
  cbn [wf_seg] in Hsg. clear - Hsg Hsy. induction x as [|c x IHx]; [reflexivity|].
  cbn [forallb] in *. apply andb_true_iff in Hsg. destruct Hsg as [Hc Hx].
  rewrite (IHx Hx), andb_true_r. destruct (lit_char_facts _ _ Hc) as (_ & _ & _ & M).
  rewrite (M Hsy). reflexivity.
Qed.

Lemma compile_rx : forall repl pi sy l st,
  (forall rest acc, parse_go (repl ++ rest) (acc, None) = parse_go rest (pi :: acc, None)) ->
  sy <> SPlain -> forallb (wf_seg sy) l = true ->
  compile (anchored (rx_segs repl l ++ star_rx st)) = Some (segs_items pi l st).
Proof.
  intros repl pi sy l st Hrepl Hsy H. unfold anchored, compile. rewrite Ascii.eqb_refl.
  rewrite <- app_assoc.
  rewrite (parse_rx_segs repl pi Hrepl l _ [] (wf_lits_plain sy l Hsy H)).
  rewrite app_nil_r. unfold segs_items. destruct st; cbn [star_rx tail_items app].
  - change (parse_go ["/"; "."; "*"; "$"] (rev (flat_map (seg_its pi) l), None))
      with (Some (rev (Plain (Atom CAny (QStar true)) :: slash_item :: rev (flat_map (seg_its pi) l)))).
    cbn [rev]. rewrite rev_involutive, <- app_assoc. reflexivity.
  - change (parse_go ["$"] (rev (flat_map (seg_its pi) l), None))
      with (Some (rev (rev (flat_map (seg_its pi) l)))).
    rewrite rev_involutive, app_nil_r. reflexivity.
Qed.

(* ------------------------------------------------------------------ *)
(* Part 6: the Go functions on printed well-formed patterns *)

Lemma seg_match_fill_str : forall p path,
  seg_match p path = is_some (fill_str (segs p) (star p) path).
Proof. intros [l st] path. unfold seg_match. rewrite fill_str_seg_fill. reflexivity. Qed.

Lemma rmatch_segs_items : forall cap g l st path,
  lits_slash_free l = true -> nl_free path = true ->
  rmatch (re_of_items (segs_items (par_item cap g) l st)) path = is_some (fill_str l st path).
Proof.
  intros cap g l st path Hl Hp. rewrite <- bt_rmatch, (bt_segs cap g l st path Hl Hp).
  destruct (fill_str l st path); reflexivity.
Qed.

Lemma SColon_not_plain : SColon <> SPlain. Proof. discriminate. Qed.
Lemma SBrace_not_plain : SBrace <> SPlain. Proof. discriminate. Qed.

(* --- KeyMatch2 --- *)
Theorem keyMatch2_spec : forall p path,
  wf_pattern SColon p = true -> nl_free path = true ->
  keyMatch2 path (print SColon p) = Some (seg_match p path).
Proof.
  intros p path Hwf Hnl. unfold keyMatch2. rewrite (rss_print SColon p Hwf).
  rewrite (rw_colon_print seg_re (segs p) (star_rx (star p)) (star_rx (star p)) []
             Hwf (at_seg_end_star_rx _) (rw_colon_star_rx _ _)).
  cbn [fst]. unfold regex_match.
  rewrite (compile_rx seg_re (par_item false true) SColon (segs p) (star p)
             parse_seg_re SColon_not_plain Hwf).
  rewrite rmatch_segs_items; [|exact (wf_lits_slash_free SColon _ Hwf)|exact Hnl].
  rewrite seg_match_fill_str. reflexivity.
Qed.

(* --- KeyMatch3 --- *)
Theorem keyMatch3_spec : forall p path,
  wf_pattern SBrace p = true -> nl_free path = true ->
  keyMatch3 path (print SBrace p) = Some (seg_match p path).
Proof.
  intros p path Hwf Hnl. unfold keyMatch3. rewrite (rss_print SBrace p Hwf).
  rewrite (rw_brace_print true seg_re (segs p) (star_rx (star p)) (star_rx (star p)) []
             Hwf (at_seg_end_star_rx _) (rw_brace_star_rx _ _ _)).
  cbn [fst]. unfold regex_match.
  rewrite (compile_rx seg_re (par_item false true) SBrace (segs p) (star p)
             parse_seg_re SBrace_not_plain Hwf).
  rewrite rmatch_segs_items; [|exact (wf_lits_slash_free SBrace _ Hwf)|exact Hnl].
  rewrite seg_match_fill_str. reflexivity.
Qed.

(* --- KeyMatch5 --- *)
Lemma nl_free_strip_query : forall s, nl_free s = true -> nl_free (strip_query s) = true.
Proof.
  induction s as [|c s IH]; intro H; [reflexivity|].
  unfold nl_free in *. cbn [forallb] in H. apply andb_true_iff in H. destruct H as [Hc H].
  cbn [strip_query]. destruct (Ascii.eqb c "?"); [reflexivity|].
  cbn [forallb]. rewrite Hc, (IH H). reflexivity.
Qed.

Theorem keyMatch5_spec : forall p path,
  wf_pattern SBrace p = true -> nl_free path = true ->
  keyMatch5 path (print SBrace p) = Some (seg_match p (strip_query path)).
Proof.
  intros p path Hwf Hnl. unfold keyMatch5. rewrite (rss_print SBrace p Hwf).
  rewrite (rw_brace_print true seg_re (segs p) (star_rx (star p)) (star_rx (star p)) []
             Hwf (at_seg_end_star_rx _) (rw_brace_star_rx _ _ _)).
  cbn [fst]. unfold regex_match.
  rewrite (compile_rx seg_re (par_item false true) SBrace (segs p) (star p)
             parse_seg_re SBrace_not_plain Hwf).
  rewrite rmatch_segs_items;
    [|exact (wf_lits_slash_free SBrace _ Hwf)|exact (nl_free_strip_query _ Hnl)].
  rewrite seg_match_fill_str. reflexivity.
Qed.

(* --- captures: KeyGet2, KeyGet3, KeyMatch4 --- *)

Lemma mcg_empty : forall key its, compile key = Some its ->
  must_compile_or_get [] key = (Some its, [(key, its)]).
Proof. intros key its H. unfold must_compile_or_get. cbn [assoc]. rewrite H. reflexivity. Qed.

Lemma fill_segs_length : forall l st ss vs, fill_segs l st ss = Some vs ->
  List.length vs = List.length (names_of l).
Proof.
  induction l as [|sg r IH]; intros st ss vs H.
  - destruct ss; cbn [fill_segs] in H; destruct st; inversion H; reflexivity.
  - destruct ss as [|s ss']; [destruct sg; discriminate|]. destruct sg as [x|n]; cbn [fill_segs names_of] in *.
    + destruct (str_eqb x s); [|discriminate]. exact (IH _ _ _ H).
    + destruct (nonempty s); [|discriminate].
      destruct (fill_segs r st ss') as [vs'|] eqn:E; [|discriminate]. inversion H; subst.
      cbn [List.length]. rewrite (IH _ _ _ E). reflexivity.
Qed.

Lemma fill_str_length : forall l st s vs, fill_str l st s = Some vs ->
  List.length vs = List.length (names_of l).
Proof.
  intros l st s vs H. rewrite fill_str_seg_fill in H. unfold seg_fill in H. cbn [segs star] in H.
  destruct (path_segments s); [|discriminate]. exact (fill_segs_length _ _ _ _ H).
Qed.

Lemma pick_first : forall name (f : str -> str) test,
  (forall n, test (f n) = str_eqb name n) ->
  forall ns vs, List.length vs = List.length ns ->
  pick test (map f ns) vs = Some (first_binding name ns vs).
Proof.
  intros name f test Ht. induction ns as [|n ns IH]; intros vs Hlen.
  - destruct vs; [reflexivity|discriminate].
  - destruct vs as [|v vs]; [discriminate|]. cbn [map pick first_binding]. rewrite Ht.
    destruct (str_eqb name n); [reflexivity|]. apply IH. cbn in Hlen. lia.
Qed.

Lemma keys_of_colon : forall l, keys_of SColon l = map (cons ":") (names_of l).
Proof.
  induction l as [|[x|n] r IH]; cbn [keys_of names_of map print_seg]; [reflexivity|exact IH|].
  rewrite IH. reflexivity.
Qed.

Lemma keys_of_brace : forall l,
  keys_of SBrace l = map (fun n => "{" :: n ++ ["}"]) (names_of l).
Proof.
  induction l as [|[x|n] r IH]; cbn [keys_of names_of map print_seg]; [reflexivity|exact IH|].
  rewrite IH. reflexivity.
Qed.

Lemma unbrace_brace : forall n, unbrace ("{" :: n ++ ["}"]) = n.
Proof. intro n. unfold unbrace. cbn [tl]. apply removelast_last. Qed.

Theorem keyGet2_spec : forall p path name,
  wf_pattern SColon p = true -> nl_free path = true ->
  keyGet2 path (print SColon p) name =
  Some (match seg_fill p path with
        | Some vs => first_binding name (names_of (segs p)) vs
        | None => []
        end).
Proof.
  intros p path name Hwf Hnl. unfold keyGet2, keyGet2_c. rewrite (rss_print SColon p Hwf).
  rewrite (rw_colon_print cap_re (segs p) (star_rx (star p)) (star_rx (star p)) []
             Hwf (at_seg_end_star_rx _) (rw_colon_star_rx _ _)).
  rewrite (mcg_empty _ _ (compile_rx cap_re (par_item true true) SColon (segs p) (star p)
             parse_cap_re SColon_not_plain Hwf)).
  cbn [fst]. rewrite (bt_segs true true (segs p) (star p) path
                        (wf_lits_slash_free SColon _ Hwf) Hnl).
  destruct p as [l st]. cbn [segs star]. rewrite <- fill_str_seg_fill.
  destruct (fill_str l st path) as [vs|] eqn:E; cbn [option_map proj]; [|reflexivity].
  rewrite app_nil_r, keys_of_colon.
  apply (pick_first name (cons ":")); [reflexivity|]. exact (fill_str_length _ _ _ _ E).
Qed.

Theorem keyGet3_spec : forall p path name,
  wf_pattern SBrace p = true -> nl_free path = true ->
  keyGet3 path (print SBrace p) name =
  Some (match seg_fill p path with
        | Some vs => first_binding name (names_of (segs p)) vs
        | None => []
        end).
Proof.
  intros p path name Hwf Hnl. unfold keyGet3, keyGet3_c. rewrite (rss_print SBrace p Hwf).
  rewrite (rw_brace_print false cap_lazy_re (segs p) (star_rx (star p)) (star_rx (star p)) []
             Hwf (at_seg_end_star_rx _) (rw_brace_star_rx _ _ _)).
  rewrite (mcg_empty _ _ (compile_rx cap_lazy_re (par_item true false) SBrace (segs p) (star p)
             parse_cap_lazy_re SBrace_not_plain Hwf)).
  cbn [fst]. rewrite (bt_segs true false (segs p) (star p) path
                        (wf_lits_slash_free SBrace _ Hwf) Hnl).
  destruct p as [l st]. cbn [segs star]. rewrite <- fill_str_seg_fill.
  destruct (fill_str l st path) as [vs|] eqn:E; cbn [option_map proj]; [|reflexivity].
  rewrite app_nil_r, keys_of_brace.
  apply (pick_first name (fun n => "{" :: n ++ ["}"])).
  - intro n. rewrite unbrace_brace. reflexivity.
  - exact (fill_str_length _ _ _ _ E).
Qed.

(* the map-based loop of KeyMatch4 = pairwise agreement of equal names *)
Fixpoint agree_vals (values : list (str * str)) (ts ms : list str) : bool :=
  match ts, ms with
  | t :: ts', m :: ms' =>
      (match assoc t values with Some v => str_eqb v m | None => true end)
      && agree_vals values ts' ms'
  | _, _ => true
  end.

Lemma agree_vals_with : forall values t v m,
  assoc t values = Some v -> str_eqb v m = true ->
  forall ts ms, agree_vals values ts ms = true -> agree_with t m ts ms = true.
Proof.
  intros values t v m Ht Hv. apply str_eqb_eq in Hv. subst v.
  induction ts as [|t' ts IH]; intros ms H; destruct ms as [|m' ms]; try reflexivity.
  cbn [agree_vals agree_with] in *. apply andb_true_iff in H. destruct H as [H1 H2].
  rewrite (IH ms H2), andb_true_r.
  destruct (str_eqb t t') eqn:E; [|reflexivity]. apply str_eqb_eq in E. subst t'.
  rewrite Ht in H1. exact H1.
Qed.

Lemma agree_vals_cons : forall values t m, assoc t values = None -> forall ts ms,
  agree_vals ((t, m) :: values) ts ms = agree_with t m ts ms && agree_vals values ts ms.
Proof.
  intros values t m Ht. induction ts as [|t' ts IH]; intros ms; destruct ms as [|m' ms]; try reflexivity.
  cbn [agree_vals agree_with assoc]. rewrite (IH ms). rewrite (str_eqb_sym t' t).
  destruct (str_eqb t t') eqn:E.
  - apply str_eqb_eq in E. subst t'. rewrite Ht.
    destruct (str_eqb m m'), (agree_with t m ts ms), (agree_vals values ts ms); reflexivity.
  - destruct (match assoc t' values with Some v => str_eqb v m' | None => true end),
             (agree_with t m ts ms), (agree_vals values ts ms); reflexivity.
Qed.

Lemma km4_loop_spec : forall ts ms values,
  km4_loop ts ms values = agree_vals values ts ms && consistent ts ms.
Proof.
  induction ts as [|t ts IH]; intros ms values; destruct ms as [|m ms]; try reflexivity.
  cbn [km4_loop agree_vals consistent]. destruct (assoc t values) as [v|] eqn:Ht.
  - rewrite Ht. destruct (str_eqb v m) eqn:Hv; [|reflexivity]. rewrite IH. cbn [andb].
    destruct (agree_vals values ts ms) eqn:Ha; [|reflexivity].
    rewrite (agree_vals_with values t v m Ht Hv ts ms Ha). reflexivity.
  - cbn [assoc]. rewrite str_eqb_refl, str_eqb_refl. rewrite IH, (agree_vals_cons values t m Ht ts ms).
    cbn [andb]. destruct (agree_with t m ts ms), (agree_vals values ts ms), (consistent ts ms); reflexivity.
Qed.

Lemma agree_vals_nil : forall ts ms, agree_vals [] ts ms = true.
Proof. induction ts as [|t ts IH]; intros [|m ms]; try reflexivity. cbn. apply IH. Qed.

Theorem keyMatch4_spec : forall p path,
  wf_pattern SBrace p = true -> nl_free path = true ->
  keyMatch4 path (print SBrace p) =
  Some (match seg_fill p path with
        | Some vs => consistent (names_of (segs p)) vs
        | None => false
        end).
Proof.
  intros p path Hwf Hnl. unfold keyMatch4, keyMatch4_c. rewrite (rss_print SBrace p Hwf).
  rewrite (rw_brace_print true cap_re (segs p) (star_rx (star p)) (star_rx (star p)) []
             Hwf (at_seg_end_star_rx _) (rw_brace_star_rx _ _ _)).
  rewrite (mcg_empty _ _ (compile_rx cap_re (par_item true true) SBrace (segs p) (star p)
             parse_cap_re SBrace_not_plain Hwf)).
  cbn [fst]. rewrite (bt_segs true true (segs p) (star p) path
                        (wf_lits_slash_free SBrace _ Hwf) Hnl).
  destruct p as [l st]. cbn [segs star]. rewrite <- fill_str_seg_fill.
  destruct (fill_str l st path) as [vs|] eqn:E; cbn [option_map proj]; [|reflexivity].
  rewrite app_nil_r, keys_of_brace, map_map.
  rewrite (map_ext _ (fun n => n) unbrace_brace), map_id.
  rewrite <- (fill_str_length _ _ _ _ E), Nat.eqb_refl.
  rewrite km4_loop_spec, agree_vals_nil. reflexivity.
Qed.

(* --- KeyMatch / KeyGet (no regexp) --- *)

Fixpoint prefixb (a s : str) : bool :=
  match a with
  | [] => true
  | x :: a' => match s with y :: s' => Ascii.eqb x y && prefixb a' s' | [] => false end
  end.

Lemma km_prefix : forall pfx path,
  (if Nat.ltb (List.length pfx) (List.length path)
   then str_eqb (firstn (List.length pfx) path) pfx else str_eqb path pfx) = prefixb pfx path.
Proof.
  induction pfx as [|x a IH]; intros path.
  - destruct path; reflexivity.
  - destruct path as [|y s']; [reflexivity|].
    cbn [List.length firstn str_eqb prefixb].
    change (Nat.ltb (S (List.length a)) (S (List.length s'))) with (Nat.ltb (List.length a) (List.length s')).
    rewrite <- (IH s'), (Ascii.eqb_sym x y).
    destruct (Nat.ltb (List.length a) (List.length s')); reflexivity.
Qed.

Lemma prefixb_skipn : forall pfx path, prefixb pfx path = true ->
  path = pfx ++ skipn (List.length pfx) path.
Proof.
  induction pfx as [|x a IH]; intros path H; [reflexivity|].
  destruct path as [|y s']; [discriminate|]. cbn [prefixb] in H.
  apply andb_true_iff in H. destruct H as [H1 H2]. apply Ascii.eqb_eq in H1. subst y.
  cbn [List.length skipn app]. rewrite <- (IH s' H2). reflexivity.
Qed.

Lemma index_star_nostar : forall x rest,
  forallb (fun c => negb (Ascii.eqb c "*")) x = true ->
  index_star (x ++ rest) = option_map (Nat.add (List.length x)) (index_star rest).
Proof.
  induction x as [|c x IH]; intros rest H.
  - cbn [app List.length]. destruct (index_star rest); reflexivity.
  - cbn [forallb] in H. apply andb_true_iff in H. destruct H as [Hc H]. apply negb_true_iff in Hc.
    cbn [app index_star]. rewrite Hc, (IH rest H). destruct (index_star rest); reflexivity.
Qed.

(* a pattern for KeyMatch has literal segments only *)
Lemma wf_plain_seg : forall sg, wf_seg SPlain sg = true ->
  exists x, sg = Lit x /\ forallb (lit_char SPlain) x = true.
Proof.
  intros [x|n] H; [exists x; split; [reflexivity|exact H]|].
  cbn [wf_seg] in H. destruct n; cbn in H; discriminate.
Qed.

Lemma print_plain_nostar : forall l, forallb (wf_seg SPlain) l = true ->
  forallb (fun c => negb (Ascii.eqb c "*")) (print_segs SPlain l) = true.
Proof.
  induction l as [|sg r IH]; intro H; [reflexivity|].
  cbn [forallb] in H. apply andb_true_iff in H. destruct H as [Hsg H].
  destruct (wf_plain_seg sg Hsg) as (x & E & Hx). subst sg.
  cbn [print_segs flat_map print_seg]. fold (print_segs SPlain r).
  cbn [app forallb]. change (negb (Ascii.eqb "/" "*")) with true. cbn [andb].
  rewrite forallb_app, (IH H), andb_true_r.
  clear - Hx. induction x as [|c x IHx]; [reflexivity|].
  cbn [forallb] in *. apply andb_true_iff in Hx. destruct Hx as [Hc Hx].
  rewrite (IHx Hx), andb_true_r. destruct (lit_char_facts _ _ Hc) as (_ & E & _). rewrite E. reflexivity.
Qed.

Lemma seg_app_inj : forall v x s2 pr,
  slash_free v = true -> slash_free x = true -> at_seg_end s2 -> at_seg_end pr ->
  v ++ s2 = x ++ pr -> v = x /\ s2 = pr.
Proof.
  intros v x s2 pr Hv Hx H2 Hp E.
  pose proof (span_ns_app v s2 Hv H2) as E1. pose proof (span_ns_app x pr Hx Hp) as E2.
  rewrite E in E1. rewrite E1 in E2. inversion E2. split; reflexivity.
Qed.

Lemma str_eqb_app_l : forall v a b, str_eqb (v ++ a) (v ++ b) = str_eqb a b.
Proof. induction v as [|c v IH]; intros a b; [reflexivity|]. cbn. rewrite Ascii.eqb_refl. apply IH. Qed.

Lemma str_eqb_seg : forall v x s2 pr,
  slash_free v = true -> slash_free x = true -> at_seg_end s2 -> at_seg_end pr ->
  str_eqb (v ++ s2) (x ++ pr) = str_eqb x v && str_eqb s2 pr.
Proof.
  intros v x s2 pr Hv Hx H2 Hp. destruct (str_eqb x v) eqn:E1; cbn [andb].
  - apply str_eqb_eq in E1. subst x. apply str_eqb_app_l.
  - apply str_eqb_neq. intro E. destruct (seg_app_inj v x s2 pr Hv Hx H2 Hp E) as [E' _].
    apply str_eqb_neq in E1. congruence.
Qed.

Lemma km_nostar : forall l s, forallb (wf_seg SPlain) l = true ->
  str_eqb s (print_segs SPlain l) = is_some (fill_str l false s).
Proof.
  induction l as [|sg r IH]; intros s H.
  - destruct s; reflexivity.
  - cbn [forallb] in H. apply andb_true_iff in H. destruct H as [Hsg H].
    destruct (wf_plain_seg sg Hsg) as (x & E & Hx). subst sg.
    cbn [print_segs flat_map print_seg fill_str]. fold (print_segs SPlain r). cbn [app].
    destruct s as [|c s1]; [reflexivity|]. cbn [str_eqb].
    destruct (Ascii.eqb c "/"); [|reflexivity]. cbn [andb].
    destruct (span_ns s1) as [v s2] eqn:Es.
    destruct (span_ns_spec _ _ _ Es) as (E & Hv & Hend). subst s1.
    rewrite str_eqb_seg; [|exact Hv|exact (lit_slash_free SPlain x Hx)|exact Hend|].
    + destruct (str_eqb x v); [|reflexivity]. cbn [andb]. apply IH. exact H.
    + rewrite <- (app_nil_r (print_segs SPlain r)). apply at_seg_end_print. left. reflexivity.
Qed.

Lemma prefix_seg : forall x v pr' s2,
  slash_free x = true -> slash_free v = true -> at_seg_end s2 ->
  prefixb (x ++ "/" :: pr') (v ++ s2) = str_eqb x v && prefixb ("/" :: pr') s2.
Proof.
  induction x as [|a x IH]; intros v pr' s2 Hx Hv Hend.
  - cbn [app str_eqb]. destruct v as [|y v']; [reflexivity|].
    unfold slash_free in Hv. cbn [forallb] in Hv. apply andb_true_iff in Hv. destruct Hv as [Hy _].
    apply negb_true_iff in Hy. cbn [app prefixb]. rewrite Ascii.eqb_sym, Hy. reflexivity.
  - unfold slash_free in Hx. cbn [forallb] in Hx. apply andb_true_iff in Hx. destruct Hx as [Ha Hx].
    apply negb_true_iff in Ha. destruct v as [|y v']; cbn [app str_eqb].
    + destruct Hend as [E|[s' E]]; subst s2; cbn [prefixb]; [reflexivity|]. rewrite Ha. reflexivity.
    + unfold slash_free in Hv. cbn [forallb] in Hv. apply andb_true_iff in Hv. destruct Hv as [_ Hv].
      cbn [prefixb]. rewrite (IH v' pr' s2 Hx Hv Hend). rewrite andb_assoc. reflexivity.
Qed.

Lemma km_star : forall l s, forallb (wf_seg SPlain) l = true ->
  prefixb (print_segs SPlain l ++ ["/"]) s = is_some (fill_str l true s).
Proof.
  induction l as [|sg r IH]; intros s H.
  - cbn [print_segs flat_map app prefixb fill_str]. destruct s as [|c s1]; [reflexivity|].
    rewrite Ascii.eqb_sym, andb_true_r. destruct (Ascii.eqb c "/"); reflexivity.
  - cbn [forallb] in H. apply andb_true_iff in H. destruct H as [Hsg H].
    destruct (wf_plain_seg sg Hsg) as (x & E & Hx). subst sg.
    cbn [print_segs flat_map print_seg fill_str]. fold (print_segs SPlain r).
    destruct s as [|c s1]; [reflexivity|]. cbn [app prefixb]. rewrite Ascii.eqb_sym.
    destruct (Ascii.eqb c "/"); [|reflexivity]. cbn [andb].
    destruct (span_ns s1) as [v s2] eqn:Es.
    destruct (span_ns_spec _ _ _ Es) as (E & Hv & Hend). subst s1.
    rewrite <- app_assoc.
    assert (Hpr : exists pr', print_segs SPlain r ++ ["/"] = "/" :: pr').
    { destruct r as [|sg' r']; cbn [print_segs flat_map app]; eexists; reflexivity. }
    destruct Hpr as [pr' Epr]. rewrite Epr.
    rewrite (prefix_seg x v pr' s2 (lit_slash_free SPlain x Hx) Hv Hend).
    destruct (str_eqb x v); [|reflexivity]. cbn [andb]. rewrite <- Epr. apply IH. exact H.
Qed.

Lemma print_plain_index : forall p, wf_pattern SPlain p = true ->
  index_star (print SPlain p) =
  if star p then Some (List.length (print_segs SPlain (segs p) ++ ["/"])) else None.
Proof.
  intros p H. unfold print. rewrite (index_star_nostar _ _ (print_plain_nostar _ H)).
  destruct (star p); cbn [index_star option_map]; [|reflexivity].
  change (Ascii.eqb "/" "*") with false. cbn iota. rewrite Ascii.eqb_refl. cbn [option_map].
  rewrite app_length. reflexivity.
Qed.

Lemma firstn_print_plain : forall l,
  firstn (List.length (print_segs SPlain l ++ ["/"])) (print_segs SPlain l ++ ["/"; "*"]) =
  print_segs SPlain l ++ ["/"].
Proof.
  intro l. change ["/"; "*"] with (["/"] ++ ["*"]). rewrite app_assoc.
  rewrite firstn_app, firstn_all, Nat.sub_diag. cbn [firstn]. apply app_nil_r.
Qed.

Theorem keyMatch_spec : forall p path, wf_pattern SPlain p = true ->
  keyMatch path (print SPlain p) = seg_match p path.
Proof.
  intros p path H. unfold keyMatch. rewrite (print_plain_index p H), seg_match_fill_str.
  unfold print. destruct (star p).
  - rewrite firstn_print_plain.
    rewrite (km_prefix (print_segs SPlain (segs p) ++ ["/"]) path). apply km_star. exact H.
  - rewrite app_nil_r. apply km_nostar. exact H.
Qed.

Theorem keyGet_spec : forall p path, wf_pattern SPlain p = true ->
  keyGet path (print SPlain p) =
  if star p && seg_match p path
  then skipn (List.length (print_segs SPlain (segs p)) + 1) path else [].
Proof.
  intros p path H. unfold keyGet. rewrite (print_plain_index p H), seg_match_fill_str.
  unfold print. destruct (star p); cbn [andb]; [|reflexivity].
  rewrite firstn_print_plain. rewrite <- (km_star _ path H).
  pose proof (km_prefix (print_segs SPlain (segs p) ++ ["/"]) path) as K.
  rewrite app_length in *. cbn [List.length] in *.
  destruct (Nat.ltb (List.length (print_segs SPlain (segs p)) + 1) (List.length path)) eqn:L.
  - rewrite K. reflexivity.
  - destruct (prefixb (print_segs SPlain (segs p) ++ ["/"]) path); [|reflexivity].
    symmetry. apply skipn_all2. apply Nat.ltb_ge in L. lia.
Qed.

(* what KeyGet returns is what the wildcard covers *)
Theorem keyGet_covers : forall p path, wf_pattern SPlain p = true ->
  star p = true -> seg_match p path = true ->
  path = print_segs SPlain (segs p) ++ "/" :: keyGet path (print SPlain p).
Proof.
  intros p path H Hst Hm. rewrite (keyGet_spec p path H), Hst, Hm. cbn [andb].
  rewrite seg_match_fill_str, Hst, <- (km_star _ path H) in Hm.
  apply prefixb_skipn in Hm. rewrite app_length in Hm. cbn [List.length] in Hm.
  rewrite <- app_assoc in Hm. exact Hm.
Qed.

(* --- the meaning of the values: the path is the pattern with its placeholders filled --- *)
Theorem fill_str_inst : forall l st s vs, fill_str l st s = Some vs ->
  exists tail, s = inst l vs ++ (if st then "/" :: tail else []).
Proof.
  induction l as [|sg r IH]; intros st s vs H; cbn [fill_str] in H.
  - destruct st.
    + destruct s as [|c s1]; [discriminate|]. destruct (Ascii.eqb c "/") eqn:Ec; [|discriminate].
      apply Ascii.eqb_eq in Ec. subst c. inversion H; subst. exists s1. reflexivity.
    + destruct s; [|discriminate]. inversion H; subst. exists []. reflexivity.
  - destruct s as [|c s1]; [discriminate|]. destruct (Ascii.eqb c "/") eqn:Ec; [|discriminate].
    apply Ascii.eqb_eq in Ec. subst c.
    destruct (span_ns s1) as [v s2] eqn:Es. destruct (span_ns_spec _ _ _ Es) as (E & _ & _). subst s1.
    destruct sg as [x|n].
    + destruct (str_eqb x v) eqn:Ex; [|discriminate]. apply str_eqb_eq in Ex. subst x.
      destruct (IH _ _ _ H) as [tail Et]. exists tail. cbn [inst app]. rewrite Et at 1. rewrite <- app_assoc. reflexivity.
    + destruct (nonempty v); [|discriminate].
      destruct (fill_str r st s2) as [vs'|] eqn:E2; [|discriminate]. inversion H; subst.
      destruct (IH _ _ _ E2) as [tail Et]. exists tail. cbn [inst app]. rewrite Et at 1. rewrite <- app_assoc. reflexivity.
Qed.

(* ------------------------------------------------------------------ *)
(* Part 7: the cache is transparent *)

Definition cache_ok (c : list (str * list item)) : Prop :=
  forall k its, assoc k c = Some its -> compile k = Some its.

Lemma cache_ok_nil : cache_ok [].
Proof. intros k its H. discriminate. Qed.

Lemma mcg_ok : forall c key, cache_ok c ->
  fst (must_compile_or_get c key) = compile key /\ cache_ok (snd (must_compile_or_get c key)).
Proof.
  intros c key Hc. unfold must_compile_or_get. destruct (assoc key c) as [its|] eqn:Ea.
  - cbn [fst snd]. split; [symmetry; apply Hc; exact Ea|exact Hc].
  - destruct (compile key) as [its|] eqn:Ec; cbn [fst snd]; split; try reflexivity; try exact Hc.
    intros k its0 H. cbn [assoc] in H. destruct (str_eqb k key) eqn:Ek.
    + apply str_eqb_eq in Ek. subst k. inversion H; subst. exact Ec.
    + apply Hc. exact H.
Qed.

Lemma keyGet2_c_pure : forall c a b v, cache_ok c ->
  fst (keyGet2_c c a b v) = keyGet2 a b v /\ cache_ok (snd (keyGet2_c c a b v)).
Proof.
  intros c a b v Hc. unfold keyGet2, keyGet2_c.
  destruct (rw_colon cap_re (replace_slash_star b) None) as [k2 keys].
  destruct (mcg_ok c (anchored k2) Hc) as [E1 O1].
  destruct (mcg_ok [] (anchored k2) cache_ok_nil) as [E2 _].
  destruct (must_compile_or_get c (anchored k2)) as [r c'].
  destruct (must_compile_or_get [] (anchored k2)) as [r0 c0].
  cbn [fst snd] in *. subst. split; [reflexivity|exact O1].
Qed.

Lemma keyGet3_c_pure : forall c a b v, cache_ok c ->
  fst (keyGet3_c c a b v) = keyGet3 a b v /\ cache_ok (snd (keyGet3_c c a b v)).
Proof.
  intros c a b v Hc. unfold keyGet3, keyGet3_c.
  destruct (rw_brace false cap_lazy_re (replace_slash_star b) None) as [k2 keys].
  destruct (mcg_ok c (anchored k2) Hc) as [E1 O1].
  destruct (mcg_ok [] (anchored k2) cache_ok_nil) as [E2 _].
  destruct (must_compile_or_get c (anchored k2)) as [r c'].
  destruct (must_compile_or_get [] (anchored k2)) as [r0 c0].
  cbn [fst snd] in *. subst. split; [reflexivity|exact O1].
Qed.

Lemma keyMatch4_c_pure : forall c a b, cache_ok c ->
  fst (keyMatch4_c c a b) = keyMatch4 a b /\ cache_ok (snd (keyMatch4_c c a b)).
Proof.
  intros c a b Hc. unfold keyMatch4, keyMatch4_c.
  destruct (rw_brace true cap_re (replace_slash_star b) None) as [k2 keys].
  destruct (mcg_ok c (anchored k2) Hc) as [E1 O1].
  destruct (mcg_ok [] (anchored k2) cache_ok_nil) as [E2 _].
  destruct (must_compile_or_get c (anchored k2)) as [r c'].
  destruct (must_compile_or_get [] (anchored k2)) as [r0 c0].
  cbn [fst snd] in *. subst. split; [reflexivity|exact O1].
Qed.

Lemma run_call_pure : forall c cl, cache_ok c ->
  fst (run_call c cl) = pure_call cl /\ cache_ok (snd (run_call c cl)).
Proof.
  intros c [a b v|a b v|a b] Hc; cbn [run_call pure_call].
  - destruct (keyGet2_c_pure c a b v Hc) as [E O]. destruct (keyGet2_c c a b v) as [r c'].
    cbn [fst snd] in *. subst. split; [reflexivity|exact O].
  - destruct (keyGet3_c_pure c a b v Hc) as [E O]. destruct (keyGet3_c c a b v) as [r c'].
    cbn [fst snd] in *. subst. split; [reflexivity|exact O].
  - destruct (keyMatch4_c_pure c a b Hc) as [E O]. destruct (keyMatch4_c c a b) as [r c'].
    cbn [fst snd] in *. subst. split; [reflexivity|exact O].
Qed.

(* whatever calls came before (whatever the cache holds), every call returns what the pure
   function returns *)
Theorem cache_transparent : forall cls c, cache_ok c -> run_calls c cls = map pure_call cls.
Proof.
  induction cls as [|cl t IH]; intros c Hc; [reflexivity|].
  cbn [run_calls map]. destruct (run_call_pure c cl Hc) as [E O].
  destruct (run_call c cl) as [r c']. cbn [fst snd] in *. subst. rewrite (IH c' O). reflexivity.
Qed.

Corollary cache_transparent_from_empty : forall cls, run_calls [] cls = map pure_call cls.
Proof. intro cls. apply cache_transparent. exact cache_ok_nil. Qed.

(* ------------------------------------------------------------------ *)
(* Part 8: the wrappers reject anything but the right number of strings, and otherwise
   return the function's value *)

Definition all_str (args : list arg) : bool :=
  forallb (fun a => match a with AStr _ => true | AOther => false end) args.

Lemma func2_spec : forall (A : Type) (f : str -> str -> fres A) args,
  func2 f args =
  match args with
  | [AStr a; AStr b] => f a b
  | _ => FErr
  end.
Proof. reflexivity. Qed.

Lemma func2_err : forall (A : Type) (f : str -> str -> fres A) args,
  (Nat.eqb (List.length args) 2 && all_str args) = false -> func2 f args = FErr.
Proof.
  intros A f args H. destruct args as [|[a|] [|[b|] [|c r]]]; try reflexivity. discriminate.
Qed.

Lemma func3_err : forall (A : Type) (f : str -> str -> str -> fres A) args,
  (Nat.eqb (List.length args) 3 && all_str args) = false -> func3 f args = FErr.
Proof.
  intros A f args H. destruct args as [|[a|] [|[b|] [|[c|] [|d r]]]]; try reflexivity. discriminate.
Qed.

(* ------------------------------------------------------------------ *)
(* Part 9: declarative reading of the specification, keyGet <-> keyMatch, refuted lemmas *)

Definition good_val (v : str) : bool := nonempty v && slash_free v.

Lemma fill_str_vals : forall l st s vs, fill_str l st s = Some vs -> forallb good_val vs = true.
Proof.
  induction l as [|sg r IH]; intros st s vs H; cbn [fill_str] in H.
  - destruct st.
    + destruct s as [|c s1]; [discriminate|]. destruct (Ascii.eqb c "/"); [|discriminate].
      inversion H; subst. reflexivity.
    + destruct s; [|discriminate]. inversion H; subst. reflexivity.
  - destruct s as [|c s1]; [discriminate|]. destruct (Ascii.eqb c "/"); [|discriminate].
    destruct (span_ns s1) as [v s2] eqn:Es. destruct (span_ns_spec _ _ _ Es) as (_ & Hv & _).
    destruct sg as [x|n].
    + destruct (str_eqb x v); [|discriminate]. exact (IH _ _ _ H).
    + destruct (nonempty v) eqn:Hne; [|discriminate].
      destruct (fill_str r st s2) as [vs'|] eqn:E2; [|discriminate]. inversion H; subst.
      cbn [forallb]. unfold good_val at 1. rewrite Hne, Hv, (IH _ _ _ E2). reflexivity.
Qed.

Lemma at_seg_end_inst : forall r vs (st : bool) tail,
  at_seg_end (inst r vs ++ (if st then "/" :: tail else [])).
Proof.
  intros [|sg r] vs st tail; cbn [inst app].
  - destruct st; [right; eexists; reflexivity|left; reflexivity].
  - destruct sg as [x|n]; [right; eexists; reflexivity|].
    destruct vs; right; eexists; reflexivity.
Qed.

Theorem inst_fill_str : forall l (st : bool) vs tail,
  lits_slash_free l = true -> List.length vs = List.length (names_of l) ->
  forallb good_val vs = true ->
  fill_str l st (inst l vs ++ (if st then "/" :: tail else [])) = Some vs.
Proof.
  induction l as [|sg r IH]; intros st vs tail Hl Hlen Hv.
  - destruct vs; [|discriminate]. destruct st; reflexivity.
  - cbn in Hl. apply andb_true_iff in Hl. destruct Hl as [Hsg Hl]. fold (lits_slash_free r) in Hl.
    destruct sg as [x|n]; cbn [names_of] in Hlen.
    + cbn [inst app fill_str]. rewrite Ascii.eqb_refl. rewrite <- app_assoc.
      rewrite (span_ns_app x _ Hsg (at_seg_end_inst r vs st tail)).
      rewrite str_eqb_refl. apply IH; assumption.
    + destruct vs as [|v vs']; [discriminate|]. cbn [forallb] in Hv.
      apply andb_true_iff in Hv. destruct Hv as [Hv Hvs]. unfold good_val in Hv.
      apply andb_true_iff in Hv. destruct Hv as [Hne Hsf].
      cbn [inst app fill_str]. rewrite Ascii.eqb_refl. rewrite <- app_assoc.
      rewrite (span_ns_app v _ Hsf (at_seg_end_inst r vs' st tail)). rewrite Hne.
      rewrite (IH st vs' tail Hl); [reflexivity| |exact Hvs]. cbn in Hlen. lia.
Qed.

(* a path matches iff it is the pattern with every placeholder replaced by a non-empty '/'-free
   text, followed — under a trailing wildcard — by "/" and anything *)
Theorem seg_match_iff : forall sy p path, wf_pattern sy p = true ->
  (seg_match p path = true <->
   exists vs tail,
     List.length vs = List.length (names_of (segs p)) /\ forallb good_val vs = true /\
     path = inst (segs p) vs ++ (if star p then "/" :: tail else [])).
Proof.
  intros sy p path Hwf. rewrite seg_match_fill_str. split.
  - destruct (fill_str (segs p) (star p) path) as [vs|] eqn:E; [intros _|discriminate].
    destruct (fill_str_inst _ _ _ _ E) as [tail Et]. exists vs, tail.
    split; [exact (fill_str_length _ _ _ _ E)|]. split; [exact (fill_str_vals _ _ _ _ E)|exact Et].
  - intros (vs & tail & Hlen & Hv & Ep). subst path.
    rewrite (inst_fill_str (segs p) (star p) vs tail (wf_lits_slash_free sy _ Hwf) Hlen Hv).
    reflexivity.
Qed.

(* --- keyGetN names a non-empty value exactly when keyMatchN holds --- *)

Lemma first_binding_good : forall name ns vs,
  existsb (str_eqb name) ns = true -> List.length vs = List.length ns ->
  forallb good_val vs = true -> nonempty (first_binding name ns vs) = true.
Proof.
  intros name. induction ns as [|n ns IH]; intros vs Hin Hlen Hv; [discriminate|].
  destruct vs as [|v vs]; [discriminate|]. cbn [first_binding existsb forallb] in *.
  apply andb_true_iff in Hv. destruct Hv as [Hv Hvs].
  destruct (str_eqb name n).
  - unfold good_val in Hv. apply andb_true_iff in Hv. tauto.
  - cbn [orb] in Hin. apply IH; [exact Hin|cbn in Hlen; lia|exact Hvs].
Qed.

Lemma seg_fill_good : forall p path vs, seg_fill p path = Some vs ->
  List.length vs = List.length (names_of (segs p)) /\ forallb good_val vs = true.
Proof.
  intros [l st] path vs H. rewrite <- fill_str_seg_fill in H. cbn [segs].
  split; [exact (fill_str_length _ _ _ _ H)|exact (fill_str_vals _ _ _ _ H)].
Qed.

Theorem keyGet2_iff_match : forall p path name,
  wf_pattern SColon p = true -> nl_free path = true ->
  existsb (str_eqb name) (names_of (segs p)) = true ->
  (keyGet2 path (print SColon p) name <> Some [] <-> keyMatch2 path (print SColon p) = Some true).
Proof.
  intros p path name Hwf Hnl Hin.
  rewrite (keyGet2_spec p path name Hwf Hnl), (keyMatch2_spec p path Hwf Hnl). unfold seg_match.
  destruct (seg_fill p path) as [vs|] eqn:E.
  - destruct (seg_fill_good p path vs E) as [Hlen Hv].
    pose proof (first_binding_good name _ vs Hin Hlen Hv) as Hne.
    split; [reflexivity|]. intros _ C. inversion C as [C']. rewrite C' in Hne. discriminate.
  - split; [intro C; exfalso; apply C; reflexivity|discriminate].
Qed.

Theorem keyGet3_iff_match : forall p path name,
  wf_pattern SBrace p = true -> nl_free path = true ->
  existsb (str_eqb name) (names_of (segs p)) = true ->
  (keyGet3 path (print SBrace p) name <> Some [] <-> keyMatch3 path (print SBrace p) = Some true).
Proof.
  intros p path name Hwf Hnl Hin.
  rewrite (keyGet3_spec p path name Hwf Hnl), (keyMatch3_spec p path Hwf Hnl). unfold seg_match.
  destruct (seg_fill p path) as [vs|] eqn:E.
  - destruct (seg_fill_good p path vs E) as [Hlen Hv].
    pose proof (first_binding_good name _ vs Hin Hlen Hv) as Hne.
    split; [reflexivity|]. intros _ C. inversion C as [C']. rewrite C' in Hne. discriminate.
  - split; [intro C; exfalso; apply C; reflexivity|discriminate].
Qed.

(* consistent = any two placeholders with the same name carry the same value *)
Lemma agree_with_spec : forall n v ns vs, agree_with n v ns vs = true ->
  forall j v', nth_error ns j = Some n -> nth_error vs j = Some v' -> v = v'.
Proof.
  intros n v. induction ns as [|n' ns IH]; intros vs H j v' Hn Hv; [destruct j; discriminate|].
  destruct vs as [|w vs]; [destruct j; discriminate|]. cbn [agree_with] in H.
  apply andb_true_iff in H. destruct H as [H1 H2]. destruct j as [|j]; cbn [nth_error] in *.
  - inversion Hn; subst. inversion Hv; subst. rewrite str_eqb_refl in H1. apply str_eqb_eq. exact H1.
  - exact (IH vs H2 j v' Hn Hv).
Qed.

Theorem consistent_spec : forall ns vs, consistent ns vs = true ->
  forall i j n v v', nth_error ns i = Some n -> nth_error ns j = Some n ->
                     nth_error vs i = Some v -> nth_error vs j = Some v' -> v = v'.
Proof.
  induction ns as [|n0 ns IH]; intros vs H i j n v v' Hi Hj Vi Vj; [destruct i; discriminate|].
  destruct vs as [|v0 vs]; [destruct i; discriminate|]. cbn [consistent] in H.
  apply andb_true_iff in H. destruct H as [H1 H2].
  destruct i as [|i]; destruct j as [|j]; cbn [nth_error] in *.
  - congruence.
  - inversion Hi; subst. inversion Vi; subst. exact (agree_with_spec _ _ _ _ H1 j v' Hj Vj).
  - inversion Hj; subst. inversion Vj; subst. symmetry. exact (agree_with_spec _ _ _ _ H1 i v Hi Vi).
  - exact (IH vs H2 i j n v v' Hi Hj Vi Vj).
Qed.

(* --- outside the guards --- *)
From Coq Require Import String.

Definition lit (s : String.string) : seg := Lit (String.list_ascii_of_string s).
Definition txt (s : String.string) : str := String.list_ascii_of_string s.
Arguments lit s%string_scope.
Arguments txt s%string_scope.

(* a line feed under the trailing wildcard: KeyMatch2 (regexp `.`) says no, KeyMatch says yes *)
Lemma keyMatch2_newline_refuted : exists p path,
  wf_pattern SColon p = true /\ nl_free path = false /\
  keyMatch2 path (print SColon p) <> Some (seg_match p path).
Proof.
  exists {| segs := [lit "a"]; star := true |}, (txt "/a/b" ++ [nl] ++ txt "c").
  vm_compute. repeat split; discriminate.
Qed.

(* a regexp metacharacter in a literal: "/a.b" accepts "/axb" *)
Lemma keyMatch2_meta_refuted : exists p path,
  wf_pattern SColon p = false /\ nl_free path = true /\
  keyMatch2 path (print SColon p) <> Some (seg_match p path).
Proof.
  exists {| segs := [lit "a.b"]; star := false |}, (txt "/axb").
  vm_compute. repeat split; discriminate.
Qed.

(* a '*' segment that is not last: "/*/b" accepts "/a/x/b" *)
Lemma keyMatch2_inner_star_refuted : exists p path,
  wf_pattern SColon p = false /\ nl_free path = true /\
  keyMatch2 path (print SColon p) <> Some (seg_match p path).
Proof.
  exists {| segs := [lit "*"; lit "b"]; star := false |}, (txt "/a/x/b").
  vm_compute. repeat split; discriminate.
Qed.

(* KeyMatch cuts the pattern at its first '*', wherever it is: "/a*" accepts "/ab" *)
Lemma keyMatch_inner_star_refuted : exists p path,
  wf_pattern SPlain p = false /\ keyMatch path (print SPlain p) <> seg_match p path.
Proof.
  exists {| segs := [lit "a*"]; star := false |}, (txt "/ab").
  vm_compute. repeat split; discriminate.
Qed.
