(* BaseProofs.v — facts about join/key (injective on comma-free, non-empty rules),
   association maps and list helpers. *)
From Coq Require Import List String Ascii Bool Arith Lia.
Import ListNotations.
From Casbin Require Import Base.
Local Open Scope string_scope.

(* ---------- join / split ---------- *)
Lemma split_comma_app f rest :
  has_comma f = false -> split_comma (f ++ String comma rest) = f :: split_comma rest.
Proof.
  induction f as [|c t IH]; intros H; cbn [has_comma append split_comma] in *.
  - rewrite Ascii.eqb_refl. reflexivity.
  - apply orb_false_iff in H as [Hc Ht]. rewrite Hc, (IH Ht). reflexivity.
Qed.

Lemma split_comma_field f : has_comma f = false -> split_comma f = [f].
Proof.
  induction f as [|c t IH]; intros H; cbn [has_comma split_comma] in *; [reflexivity|].
  apply orb_false_iff in H as [Hc Ht]. rewrite Hc, (IH Ht). reflexivity.
Qed.

Lemma split_join l : wf_rule l = true -> split_comma (join l) = l.
Proof.
  unfold wf_rule. destruct l as [|x xs]; [discriminate|]. revert x.
  induction xs as [|y ys IH]; intros x H; cbn [forallb] in H.
  - apply andb_true_iff in H as [Hx _]. apply negb_true_iff in Hx. cbn [join]. apply split_comma_field; assumption.
  - apply andb_true_iff in H as [Hx Hr]. apply negb_true_iff in Hx.
    change (join (x :: y :: ys)) with (x ++ String comma (join (y :: ys))).
    rewrite split_comma_app by assumption. rewrite (IH y Hr). reflexivity.
Qed.

Theorem key_injective r1 r2 : wf_rule r1 = true -> wf_rule r2 = true -> key r1 = key r2 -> r1 = r2.
Proof.
  unfold key. intros W1 W2 E. rewrite <- (split_join r1 W1), <- (split_join r2 W2), E. reflexivity.
Qed.

Example key_collision : key ["a,b"; "c"] = key ["a"; "b,c"] /\ ["a,b"; "c"] <> ["a"; "b,c"].
Proof. split; [reflexivity|discriminate]. Qed.

(* ---------- rule equality ---------- *)
Lemma list_eqb_spec {A} (eqb : A -> A -> bool) (Heq : forall x y, eqb x y = true <-> x = y) a b :
  list_eqb eqb a b = true <-> a = b.
Proof.
  revert b. induction a as [|x a IH]; intros [|y b]; cbn [list_eqb]; try (split; [discriminate|congruence]).
  - tauto.
  - rewrite andb_true_iff, Heq, IH. split; [intros [-> ->]; reflexivity|intros H; inversion H; auto].
Qed.

Lemma rule_eqb_eq a b : rule_eqb a b = true <-> a = b.
Proof. apply list_eqb_spec. apply String.eqb_eq. Qed.
Lemma rule_eqb_refl a : rule_eqb a a = true.
Proof. apply rule_eqb_eq. reflexivity. Qed.
Lemma rule_eqb_neq a b : rule_eqb a b = false <-> a <> b.
Proof. rewrite <- rule_eqb_eq. destruct (rule_eqb a b); split; congruence. Qed.

Lemma mem_rule_In x l : mem_rule x l = true <-> In x l.
Proof.
  unfold mem_rule. rewrite existsb_exists. split.
  - intros [y [Hy E]]. apply rule_eqb_eq in E. subst. exact Hy.
  - intros H. exists x. split; [exact H|apply rule_eqb_refl].
Qed.
Lemma mem_str_In x l : mem_str x l = true <-> In x l.
Proof.
  unfold mem_str. rewrite existsb_exists. split.
  - intros [y [Hy E]]. apply String.eqb_eq in E. subst. exact Hy.
  - intros H. exists x. split; [exact H|apply String.eqb_refl].
Qed.

(* ---------- association maps ---------- *)
Section Maps.
Context {A : Type}.
Implicit Types (m : smap A) (k : string).

Lemma lookup_set_eq k (v : A) m : lookup k (set k v m) = Some v.
Proof. unfold set. cbn [lookup]. rewrite String.eqb_refl. reflexivity. Qed.
Lemma lookup_set_neq k k' (v : A) m : k' <> k -> lookup k' (set k v m) = lookup k' m.
Proof. intros H. unfold set. cbn [lookup]. apply String.eqb_neq in H. rewrite H. reflexivity. Qed.
Lemma lookup_set k k' (v : A) m : lookup k' (set k v m) = if String.eqb k' k then Some v else lookup k' m.
Proof. reflexivity. Qed.
Lemma lookup_del_eq k m : lookup k (del k m) = None.
Proof.
  induction m as [|[k' v] t IH]; cbn [del filter lookup fst]; [reflexivity|].
  destruct (String.eqb k k') eqn:E; cbn [negb]; [exact IH|]. cbn [lookup]. rewrite E. exact IH.
Qed.
Lemma lookup_del_neq k k' m : k' <> k -> lookup k' (del k m) = lookup k' m.
Proof.
  intros H. induction m as [|[k2 v] t IH]; cbn [del filter lookup fst]; [reflexivity|].
  destruct (String.eqb k k2) eqn:E; cbn [negb].
  - apply String.eqb_eq in E. subst k2. apply String.eqb_neq in H. rewrite H. exact IH.
  - cbn [lookup]. fold (del k t). rewrite IH. reflexivity.
Qed.
Lemma lookup_del k k' m : lookup k' (del k m) = if String.eqb k' k then None else lookup k' m.
Proof.
  destruct (String.eqb k' k) eqn:E.
  - apply String.eqb_eq in E. subst. apply lookup_del_eq.
  - apply String.eqb_neq in E. apply lookup_del_neq. exact E.
Qed.
End Maps.

(* ---------- set_nth ---------- *)
Local Close Scope string_scope.
Lemma set_nth_length {A} i (x : A) l : List.length (set_nth i x l) = List.length l.
Proof. revert i. induction l as [|h t IH]; intros [|i]; cbn [set_nth List.length]; auto. Qed.

Lemma nth_error_set_nth {A} i j (x : A) l :
  nth_error (set_nth i x l) j = if Nat.eqb i j then (if Nat.ltb i (List.length l) then Some x else None) else nth_error l j.
Proof.
  revert i j. induction l as [|h t IH]; intros i j; cbn [set_nth].
  - destruct i, j; cbn; try reflexivity. destruct (Nat.eqb i j); reflexivity.
  - destruct i as [|i], j as [|j]; cbn [set_nth nth_error Nat.eqb List.length]; try reflexivity.
    rewrite IH. destruct (Nat.eqb i j); [|reflexivity].
    change (Nat.ltb (S i) (S (List.length t))) with (Nat.ltb i (List.length t)). reflexivity.
Qed.

Lemma set_nth_same {A} i (x : A) l : nth_error l i = Some x -> set_nth i x l = l.
Proof.
  revert i. induction l as [|h t IH]; intros [|i] H; cbn [set_nth nth_error] in *; try discriminate.
  - inversion H; reflexivity.
  - rewrite (IH _ H). reflexivity.
Qed.

Lemma set_nth_set_nth {A} i (x y : A) l : set_nth i x (set_nth i y l) = set_nth i x l.
Proof. revert i. induction l as [|h t IH]; intros [|i]; cbn [set_nth]; try reflexivity. rewrite IH. reflexivity. Qed.

Lemma set_nth_app {A} (pre : list A) x y suf :
  set_nth (List.length pre) x (pre ++ y :: suf) = pre ++ x :: suf.
Proof. induction pre as [|h t IH]; cbn [List.length app set_nth]; [reflexivity|]. rewrite IH. reflexivity. Qed.

Lemma nth_error_split_at {A} (l : list A) i x :
  nth_error l i = Some x -> l = firstn i l ++ x :: skipn (S i) l /\ List.length (firstn i l) = i.
Proof.
  revert i. induction l as [|h t IH]; intros [|i] H; cbn [nth_error] in H; try discriminate.
  - inversion H; subst. split; reflexivity.
  - destruct (IH _ H) as [E L]. split.
    + cbn [firstn skipn app]. cbn [skipn] in E. rewrite <- E. reflexivity.
    + cbn [firstn List.length]. rewrite L. reflexivity.
Qed.
